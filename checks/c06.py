"""C06 - dereplication (obiuniq) conserves counts and merges exactly the identical records;
obidemerge inverts merged_<attribute>.

M: Uniq.tla: every bag of <= 3 (thorough 4) records over 2 sequences x category values (+ missing, + an explicit
   NA) x counts x merge attribute shapes (absent / value / already merged map) x option sets: the theorems of
   the specification (one record per key, conservation, --no-singleton drops exactly the classes of total
   count 1, demerge is the inverse, dereplication by parts, order independence, the implementation-shaped
   chunk -> sub-chunk -> fold pipeline computes the definition for every permutation and chunk count);
   exports the required output set of each (bag, options).
   Weighted configurations (UniqW_*.cfg): records with an integer attribute w and / or maps of an earlier pass
   (merged_k, merged_k:w), options -m k:w alone or with -m k: per requested descriptor the map of an output record
   is the sum of the contributions of its class (total = sum of w, per value, additive over any split, the two
   descriptors independent, -m k:w with w = count is -m k, second pass over dereplicated parts).
   UniqPipe.tla: the goroutine structure (distribute -> chunk files -> recursive sub-chunking with a growing
   WaitGroup -> merge): exactly-once, complete classes, termination, files read only after being closed.
R: every exported case through the real obichunk.IUniqueSequence (permutations x {memory, disk} x workers x
   chunk counts x batch sizes), through MakeDemergeWorker, and through the real binaries obiuniq / obidemerge
   (`-m k`, `-m k:w`, `-m k -m k:w`, `-m k:w -m k`); two-pass runs (each part of the bag dereplicated, then the
   real output records dereplicated together) on library objects and on files.
T: random data sets of ~10^3 records through the library and the binaries, validated by UniqTrace.tla.
"""
import json
import os
import vlib

QUICK_CFGS = ["Uniq_quick.cfg", "Uniq_quick2.cfg", "UniqW_quick.cfg", "UniqW_quick2.cfg", "UniqW_laws.cfg"]
THOROUGH_CFGS = ["Uniq_thorough.cfg", "Uniq_thorough2.cfg", "Uniq_thorough4.cfg", "Uniq_laws.cfg",
                 "UniqW_quick2.cfg", "UniqW_thorough.cfg", "UniqW_thorough4.cfg", "UniqW_laws.cfg"]


def weighted(case):
    """the case asks for the weighted descriptor -m k:w"""
    return len(case["opt"]) > 3 and case["opt"][3] == 1


def wshape_of(case):
    """scenario class of a weighted case (coverage only): which of its records already carry a merged_k:w map"""
    kinds = sorted(set(("wmap" if r[7] == "map" else "raw") for r in case["in"]))
    return "+".join(kinds) if kinds else "empty"


def starved_of_file_descriptors(ctx):
    """on-disk mode with fewer file descriptors than chunk files: the command either fails (non-zero status) or writes
    what it writes when nothing goes wrong (relational: the reference is the same command without the limit)"""
    bindir = ctx.build_cmds(["obiuniq"])
    d = ctx.path("fdlimit")
    os.makedirs(d, exist_ok=True)
    rng = ctx.rng
    seqs = ["".join(rng.choice("acgt") for _ in range(60)) for _ in range(600)]
    with open(os.path.join(d, "in.fa"), "w") as f:
        for rep in range(5):
            for i, q in enumerate(seqs):
                f.write(">r%d_%d\n%s\n" % (rep, i, q))

    def summary(out):
        recs = {}
        lines = out.decode().split("\n")
        for a, b in zip(lines[0::2], lines[1::2]):
            if a.startswith(">"):
                j = a.find("{")
                ann = json.loads(a[j:a.rindex("}") + 1]) if j >= 0 else {}
                recs[b] = recs.get(b, 0) + int(ann.get("count", 1))
        return recs
    exe = os.path.join(bindir, "obiuniq")
    for chunks, limit in ((100, 64), (400, 200)):
        ref = ctx.run_many([{"argv": [exe, "--no-progressbar", "--chunk-count", str(chunks), "in.fa"], "cwd": d}], timeout=600)[0]
        if ref["rc"] != 0:
            raise vlib.Inconclusive("reference obiuniq run failed: " + ref["err"][-300:])
        r = ctx.run_many([{"argv": ["/bin/bash", "-c", "ulimit -n %d; exec %s --no-progressbar --chunk-count %d in.fa" % (limit, exe, chunks)],
                           "cwd": d}], timeout=600)[0]
        ctx.replayed += 1
        if r["timeout"]:
            ctx.violation("C06.bin.fdlimit.hang", "chunks=%d/limit=%d" % (chunks, limit), "obiuniq --chunk-count %d under ulimit -n %d did not terminate" % (chunks, limit),
                          {"chunks": chunks, "limit": limit})
        elif r["rc"] == 0 and summary(r["out"]) != summary(ref["out"]):
            got, want = summary(r["out"]), summary(ref["out"])
            ctx.violation("C06.bin.fdlimit.records_lost", "chunks=%d/limit=%d" % (chunks, limit),
                          "obiuniq --chunk-count %d under ulimit -n %d exits 0 with %d sequences (total count %d); without the limit: %d sequences (total %d)"
                          % (chunks, limit, len(got), sum(got.values()), len(want), sum(want.values())), {"chunks": chunks, "limit": limit})
        ctx.classes["bin/fdlimit/" + ("failed" if r["rc"] != 0 else "completed")] = ctx.classes.get("bin/fdlimit/" + ("failed" if r["rc"] != 0 else "completed"), 0) + 1


def attribute_names(ctx):
    """the statement quantifies over the requested attribute: the same 9 records under a dozen attribute names (what -m
    and -c are given is a name chosen by the user), in memory and on disk, through obiuniq -m NAME then obidemerge -d NAME;
    expected maps and counts are computed from the statement (sum of the counts per sequence and per value)"""
    bindir = ctx.build_cmds(["obiuniq", "obidemerge"])
    d = ctx.path("attrnames")
    os.makedirs(d, exist_ok=True)
    uniq, dem = os.path.join(bindir, "obiuniq"), os.path.join(bindir, "obidemerge")
    recs = [("acgtacgtaa", "A", 2), ("acgtacgtaa", "B", 1), ("acgtacgtaa", "A", 3), ("ttgtacgtaa", "B", 4), ("ttgtacgtaa", None, 1),
            ("ggggacgtaa", "C", 1), ("ggggacgtaa", "C", 1), ("ccccacgtaa", None, 5), ("acgtacgtaa", "C", 1)]
    names = ["run", "marker", "experiment", "group", "replicate", "gene", "direction", "depth", "_x", "sample", "taxon", "location", "primer"]

    def parse(out):
        got = []
        lines = out.decode().split("\n")
        for a, b in zip(lines[0::2], lines[1::2]):
            if a.startswith(">"):
                j = a.find("{")
                got.append((b, json.loads(a[j:a.rindex("}") + 1]) if j >= 0 else {}))
        return got
    jobs = []
    for name in names:
        with open(os.path.join(d, name + ".fa"), "w") as f:
            for i, (q, v, c) in enumerate(recs):
                ann = {"count": c}
                if v is not None:
                    ann[name] = v
                f.write(">r%d %s\n%s\n" % (i, json.dumps(ann), q))
        for mode in ([], ["--in-memory"]):
            jobs.append({"name": name, "mode": mode,
                         "argv": ["/bin/bash", "-c", "%s --no-progressbar %s -m %s %s.fa > %s.u%d.fa && %s --no-progressbar -d %s %s.u%d.fa"
                                  % (uniq, " ".join(mode), name, name, name, len(mode), dem, name, name, len(mode))], "cwd": d})
    res = ctx.run_many(jobs, timeout=300)
    for j, r in zip(jobs, res):
        name = j["name"]
        cls = "bin/attribute-name/" + ("memory" if j["mode"] else "disk")
        ctx.replayed += 1
        what = "obiuniq %s -m %s | obidemerge -d %s on 9 records" % (" ".join(j["mode"]), name, name)
        if r["timeout"] or r["rc"] != 0:
            ctx.violation("C06.bin.attribute_name.exit_status", cls, "%s: exit status %s %s" % (what, r["rc"], r["err"][-300:]), {"name": name})
            continue
        want_maps = {}
        for q, v, c in recs:
            want_maps.setdefault(q, {})
            want_maps[q][v if v is not None else "NA"] = want_maps[q].get(v if v is not None else "NA", 0) + c
        try:
            u = parse(open(os.path.join(d, "%s.u%d.fa" % (name, len(j["mode"]))), "rb").read())
            got_maps = {q: a.get("merged_" + name) for q, a in u}
            stray = sorted(k for q, a in u for k in a if k.startswith("merged_") and k != "merged_" + name)
            dm = sorted((q, str(a.get(name, "NA")), int(a.get("count", 1))) for q, a in parse(r["out"]))
        except Exception as ex:
            ctx.violation("C06.bin.attribute_name.output", cls, "%s: output cannot be decoded: %s" % (what, ex), {"name": name})
            continue
        want_dm = sorted((q, v, c) for q, m in want_maps.items() for v, c in m.items())
        if got_maps != want_maps or stray:
            ctx.violation("C06.bin.attribute_name.merged_map", cls, "%s: merged_%s maps are %s (other merged_ slots: %s), expected %s"
                          % (what, name, got_maps, stray, want_maps), {"name": name})
        elif dm != want_dm:
            ctx.violation("C06.bin.attribute_name.demerge", cls, "%s: demerged records (sequence, value, count) %s, expected %s" % (what, dm, want_dm), {"name": name})
        else:
            ctx.classes[cls] = ctx.classes.get(cls, 0) + 1


def run_replay(ctx, name, cases, level, runs, procs=8, par=4, extra=(), timeout=2400):
    cf = ctx.path("cases_%s.ndjson" % name)
    rf = ctx.path("res_%s.ndjson" % name)
    vlib.write_ndjson(cf, cases)
    args = ["replay", "C06", "--cases", cf, "--out", rf, "--opt", "level=" + level, "--opt", "runs=%d" % runs,
            "--opt", "procs=%d" % procs, "--opt", "par=%d" % par, "--opt", "bindir=" + os.path.join(ctx.scratch, "bin")]
    for e in extra:
        args += ["--opt", e]
    ctx.harness(args, timeout=timeout)
    return ctx.add_results(rf)


def shape_of(case):
    """scenario class of a model case (coverage only)"""
    kinds = sorted(set(r[3] for r in case["in"]))
    return "+".join(kinds) if kinds else "empty"


class Vacuity:
    """Vacuity guards are evaluated at the end, and only when nothing was violated: a run in which the real code
    crashed or failed everywhere must end as exit 1 (violations), not as exit 2 (scenario not reached)."""

    def __init__(self):
        self.items = []

    def expect(self, name, n):
        self.items.append((name, n))

    def settle(self, ctx):
        if ctx.violations:
            return
        for name, n in self.items:
            ctx.expect_vacuity(name, n)


def main(ctx):
    thorough = ctx.tier == "thorough"
    vac = Vacuity()
    ctx.build_cmds(["obiuniq", "obidemerge"])
    if ctx.replay:
        blob = json.load(open(ctx.replay))
        case = blob["case"]
        if "recs" in case:      # a trace event: run the same data set and configuration again (seeded), validate it
            tr = ctx.path("trace.ndjson")
            ctx.harness(["record", "C06", "--out", tr, "--n", 1, "--opt", "jobseed=%d" % case["seed"],
                         "--opt", "jobbin=%d" % (1 if case.get("level") == "bin" else 0),
                         "--opt", "jobpass2=%d" % (1 if case.get("op") == "pass2" else 0),
                         "--opt", "bindir=" + os.path.join(ctx.scratch, "bin"), "--opt", "distbatch=%d" % case.get("distbatch", 7)], timeout=900)
            events, rejects = ctx.trace_validate("UniqTrace", "UniqTrace.cfg", tr)
            for r in rejects:
                ev = events[r["l"] - 1]
                ctx.violation("C06.trace.%s.%s" % (ev["level"], r["why"]), "%s/%s" % (ev["op"], ev["mode"]),
                              "re-run of the recorded data set (seed %d) rejected by UniqTrace: %s" % (ev["seed"], r["why"]), ev)
            return ctx.finish()
        level = (case.get("cfg") or {}).get("level", "lib")
        run_replay(ctx, "replay", [case], level, 1, procs=1, par=1, extra=["repeat=25"])
        return ctx.finish()

    # M ---------------------------------------------------------------------------------------
    allcases = []
    for cfg in (THOROUGH_CFGS if thorough else QUICK_CFGS):
        cf = ctx.path("model_%s.ndjson" % cfg)
        res = ctx.tlc_model("UniqMC", cfg, env={"VERIF_CASES": cf}, timeout=2400, heap="8g" if thorough else None)
        got = vlib.read_cases(cf)
        if len(got) != res.distinct:
            raise vlib.Inconclusive("%s: %d exported lines for %d states (torn export?)" % (cfg, len(got), res.distinct))
        allcases += got
    for i, c in enumerate(allcases):
        c["idx"] = i
    ctx.expect_vacuity("exported (bag, options) cases", len(allcases))
    ctx.extra["exported_cases"] = len(allcases)
    pipe_states = 0
    for cfg in (["UniqPipe_thorough.cfg", "UniqPipe_disk_thorough.cfg"] if thorough else ["UniqPipe_quick.cfg", "UniqPipe_disk.cfg"]) + ["UniqPipe_live.cfg"]:
        pipe_states += ctx.tlc_model("UniqPipe", cfg, timeout=2400, deadlock_check=True).distinct
    neg = ctx.tlc("UniqPipe", "UniqPipe_aswritten.cfg", timeout=600, count=False, deadlock_check=True)
    if "ReadAfterClose" not in neg.invariant_violated:
        raise vlib.Inconclusive("negative test: the as-written pipeline model should violate ReadAfterClose")
    ctx.extra["pipeline_model_states"] = pipe_states

    # R ---------------------------------------------------------------------------------------
    shapes = {}
    for c in allcases:
        shapes.setdefault(shape_of(c), []).append(c)
    for need in ("map", "map+val", "map+none+val", "none+val"):
        ctx.expect_vacuity("model bags of shape " + need, len(shapes.get(need, [])))
    if thorough:
        # budget: at most 400 000 of the exported cases (seeded sample), 2 configurations each, one in 32 on disk
        lib_cases = vlib.sample(ctx.rng, allcases, 400000)
        runs, diskevery = 2, 32
    else:
        # a seeded sample, every shape class x option set represented
        by = {}
        for c in allcases:
            by.setdefault((shape_of(c), wshape_of(c) if weighted(c) else "", tuple(c["opt"]), len(c["in"])), []).append(c)
        lib_cases = [c for k in sorted(by) for c in vlib.sample(ctx.rng, by[k], 30 if not k[1] else 12)]
        runs, diskevery = 6, 6
    ctx.rng.shuffle(lib_cases)
    summ = run_replay(ctx, "lib", lib_cases, "lib", runs, procs=8, par=4, extra=["diskevery=%d" % diskevery])
    ctx.extra["library_cases"] = len(lib_cases)
    # every input permutation (<= 24) of a sample of the bags of 3 and 4 records
    big = [c for c in allcases if len(c["in"]) >= 3]
    perm_cases = vlib.sample(ctx.rng, big, 6000 if thorough else 250)
    run_replay(ctx, "perms", perm_cases, "lib", 1, procs=8, par=4, extra=["diskevery=8", "allperms=1"])
    ctx.extra["all_permutation_cases"] = len(perm_cases)
    multi = [c for c in allcases if len(c["in"]) >= 2]
    bin_cases = vlib.sample(ctx.rng, multi, 1500 if thorough else 160)
    run_replay(ctx, "bin", bin_cases, "bin", 2 if thorough else 1, procs=1, par=16, extra=["inprocess=1"])
    starved_of_file_descriptors(ctx)
    attribute_names(ctx)
    law_cases = vlib.sample(ctx.rng, [c for c in multi if c["opt"][1] == 1], 600 if thorough else 60)
    run_replay(ctx, "law", law_cases, "law", 1, procs=1, par=16, extra=["inprocess=1"])
    # the weighted descriptor: every (shape class, option set) through the binaries, and the two-pass runs
    wcases = [c for c in allcases if weighted(c)]
    ctx.expect_vacuity("exported cases with the weighted descriptor", len(wcases))
    for need in ("raw", "wmap", "raw+wmap"):
        ctx.expect_vacuity("weighted model bags of shape " + need, sum(1 for c in wcases if wshape_of(c) == need))
    wmulti = [c for c in wcases if len(c["in"]) >= 2]
    wby = {}
    for c in wmulti:
        wby.setdefault((wshape_of(c), tuple(c["opt"])), []).append(c)
    wbin_cases = [c for k in sorted(wby) for c in vlib.sample(ctx.rng, wby[k], 40 if thorough else 6)]
    run_replay(ctx, "wbin", wbin_cases, "bin", 2 if thorough else 1, procs=1, par=16, extra=["inprocess=1"])
    p2_cases = vlib.sample(ctx.rng, wmulti, 20000 if thorough else 500) + vlib.sample(ctx.rng, [c for c in multi if not weighted(c)], 4000 if thorough else 100)
    run_replay(ctx, "pass2", p2_cases, "pass2", 2, procs=8, par=4, extra=["diskevery=%d" % (16 if thorough else 8)])
    p2b_cases = vlib.sample(ctx.rng, wmulti, 1200 if thorough else 90)
    run_replay(ctx, "pass2bin", p2b_cases, "pass2bin", 1, procs=1, par=16, extra=["inprocess=1"])
    ctx.extra["weighted_cases"] = {"exported": len(wcases), "binary": len(wbin_cases), "two_pass_library": len(p2_cases), "two_pass_binary": len(p2b_cases)}
    need = ["lib/mem/cat0/m1/ns0", "lib/disk/cat0/m1/ns0", "lib/mem/cat1/m1/ns1", "lib/disk/cat1/m1/ns1", "lib/mem/cat2/m1/ns0",
            "lib/disk/cat2/m1/ns1", "lib/mem/cat1/m0/ns0", "demerge/-/cat1/m1/ns0", "law/demerge", "law/uniq-demerge-uniq"]
    for n in need:
        vac.expect("class " + n, ctx.classes.get(n, 0))
    def classes_like(pred):
        return sum(v for k, v in ctx.classes.items() if pred(k))
    vac.expect("library runs with -m k:w alone", classes_like(lambda k: k.startswith("lib/") and "/m0/" in k and k.endswith("/w1")))
    for o in (0, 1, 2):
        vac.expect("library runs with both descriptors, order %d" % o, classes_like(lambda k: k.startswith("lib/") and k.endswith("/w1/order%d" % o)))
    vac.expect("library runs with -m k:w on disk", classes_like(lambda k: k.startswith("lib/disk/") and "/w1" in k))
    vac.expect("binary runs with -m k:w alone", classes_like(lambda k: k.startswith("bin/") and "/m0/" in k and k.endswith("/w1")))
    vac.expect("binary runs with -m k -m k:w", classes_like(lambda k: k.startswith("bin/") and k.endswith("/w1/order0")))
    vac.expect("binary runs with -m k:w -m k", classes_like(lambda k: k.startswith("bin/") and k.endswith("/w1/order1")))
    vac.expect("two-pass library runs with -m k:w", classes_like(lambda k: k.startswith("pass2/") and "/w1" in k))
    vac.expect("two-pass binary runs with -m k:w", classes_like(lambda k: k.startswith("pass2bin/") and "/w1" in k))
    vac.expect("binary runs on disk", sum(v for k, v in ctx.classes.items() if k.startswith("bin/disk") or k.startswith("law/disk")))
    vac.expect("binary runs on disk with long sequences", sum(v for k, v in ctx.classes.items() if k.endswith("/bigseq")))
    vac.expect("binary runs in memory", sum(v for k, v in ctx.classes.items() if k.startswith("bin/mem") or k.startswith("law/mem")))

    # T ---------------------------------------------------------------------------------------
    trace = ctx.path("trace.ndjson")
    n = 200 if thorough else 28
    p = ctx.harness(["record", "C06", "--out", trace, "--n", n, "--opt", "nbin=%d" % (n // 3), "--opt", "size=1000",
                     "--opt", "bindir=" + os.path.join(ctx.scratch, "bin"), "--opt", "distbatch=%d" % [7, 50, 2000][ctx.seed % 3]],
                    timeout=1500, check=False)
    if p.returncode != 0:
        err = p.stderr or ""
        i = max(err.find("panic:"), err.find("fatal error:"))
        if i < 0:
            raise vlib.Inconclusive("record C06 failed rc=%d: %s" % (p.returncode, err[-2000:]))
        # the code under test panicked inside the recording process (no process isolation there)
        ctx.violation("C06.trace.lib.crash", "record", "IUniqueSequence panicked on a random data set: " + err[i:i + 600], {"seed": ctx.seed})
        vac.settle(ctx)
        return ctx.finish()
    events, rejects = ctx.trace_validate("UniqTrace", "UniqTrace.cfg", trace, timeout=2400)
    for r in rejects:
        ev = events[r["l"] - 1]
        ctx.violation("C06.trace.%s.%s" % (ev["level"], r["why"]), "%s/%s" % (ev["op"], ev["mode"]),
                      "%s %s run (workers=%d chunks=%d ncat=%d merge=%d wmerge=%d ns=%d, %d records, seed %d) rejected by UniqTrace: %s %s" %
                      (ev["level"], ev["op"], ev["workers"], ev["chunks"], ev["ncat"], ev["merge"], ev["wmerge"], ev["ns"], len(ev["recs"]),
                       ev["seed"], r["why"], ev.get("badwhy", "")), ev)
    ops = {}
    for ev in events:
        ops[ev["op"] + "/" + ev["level"]] = ops.get(ev["op"] + "/" + ev["level"], 0) + 1
    for needop in ("uniq/lib", "uniq/bin", "demerge/bin", "law/bin", "pass2/lib", "pass2/bin"):
        vac.expect("trace events " + needop, ops.get(needop, 0))
    vac.expect("trace events with -m k:w alone", sum(1 for ev in events if ev["wmerge"] == 1 and ev["merge"] == 0))
    vac.expect("trace events with both descriptors", sum(1 for ev in events if ev["wmerge"] == 1 and ev["merge"] == 1))
    ctx.extra["trace_events"] = ops
    ctx.extra["trace_records"] = sum(len(ev["recs"]) for ev in events)
    e0 = events[0]
    ctx.samples.append({"trace_event": {k: (e0[k][:3] if k in ("recs", "out") else e0[k]) for k in e0}})
    ctx.assumptions += [
        "nucleotide strings are abstracted to identifiers, category / merge values to small strings; the harness only encodes "
        "abstract records as real ones and decodes real output records (sequence, c1..cn, count, merged_k)",
        "records of the model are consistent: an already merged record has count = total of its merged_k map",
        "weighted descriptor: the attribute w is an integer >= 0; in merged_k:w a value of total weight 0 and an absent value "
        "are the same thing (the property speaks of the summed weight per value); obidemerge on merged_k:w is not asserted",
        "attributes other than count, the category attributes and k / merged_k are not asserted",
        "the on-disk race (chunk file read before its writer closed it) is a scheduling property: it is exercised with long "
        "sequences through the binaries, a miss is possible, a false alarm is not",
    ]
    vac.settle(ctx)
    return ctx.finish(rule="case = (bag of records, option set) with the output set Uniq.tla requires; each replayed under several "
                           "(permutation, memory/disk, workers, chunk count, batch size) configurations; trace event = one run on ~10^3 records")

"""C03 - no record lost, duplicated or reordered by the stream combinators.

M: StreamCases.tla (required outputs of the deterministic combinators on every partition x arrival
   permutation x parameters, contracts checked), Pipeline.tla (worker pool -> SortBatches -> Rebatch:
   all interleavings, confluence, conservation, termination under fairness; exports the schedules).
R: every exported case on the real combinators; every exported schedule forced with gates.
T: nondeterministic combinators and chained pipelines under random latencies, validated by StreamTrace.
"""
import json
import vlib


def command_events(ctx, thorough):
    import os
    bindir = ctx.build_cmds(["obiconvert", "obigrep", "obiannotate", "obicount", "obisummary"])
    rng = ctx.rng
    d = ctx.path("cmdfiles")
    os.makedirs(d, exist_ok=True)
    lens = {}
    files = []

    cnts = {}

    def mkfile(name, ids, holes=()):
        os.makedirs(os.path.dirname(os.path.join(d, name)), exist_ok=True)
        with open(os.path.join(d, name), "w") as f:
            for i in ids:
                lens[i] = rng.randint(1, 90) if i not in holes else 0
                cnts[i] = rng.choice([1, 1, 2, 7])
                seq = "".join("acgt"[(i + k) % 4] for k in range(lens[i]))
                f.write(">r%d {\"n\":%d,\"count\":%d}\n%s\n" % (i, i, cnts[i], seq))
        return name
    nrec = 61 if not thorough else 257
    sets = [
        [mkfile("a.fa", range(1, nrec + 1))],
        [mkfile("empty.fa", [])],
        [mkfile("e1.fa", []), mkfile("b.fa", range(nrec + 1, nrec + 8)), mkfile("e2.fa", []), mkfile("c.fa", range(nrec + 8, nrec + 12))],
        [mkfile("one.fa", [nrec + 20])],
    ]
    # a directory given as argument: every sequence file below it is read once (the order of the files is the
    # command's business: it is taken from the output, the rest is judged as for a list of files)
    # (below a directory the commands take the files named *.fasta, *.fastq, *.seq, *.gb, *.dat, *.ecopcr [.gz] only)
    dirfiles = {"dir1/x.fasta": list(range(nrec + 30, nrec + 35)), "dir1/sub/y.fasta": list(range(nrec + 35, nrec + 38)),
                "dir1/sub/deep/z.fasta": list(range(nrec + 38, nrec + 44)), "dir1/sub/deep/empty.fasta": [], "dir1/w.fasta": [nrec + 44]}
    for name, ids in dirfiles.items():
        mkfile(name, ids)
    sets.append(["dir1"])
    sets.append(["one.fa", "dir1/sub"])
    recs = {tuple(fs): None for fs in sets}
    order = {"a.fa": list(range(1, nrec + 1)), "empty.fa": [], "e1.fa": [], "e2.fa": [], "b.fa": list(range(nrec + 1, nrec + 8)),
             "c.fa": list(range(nrec + 8, nrec + 12)), "one.fa": [nrec + 20]}
    order.update(dirfiles)
    fileof = {i: f for f, ids in dirfiles.items() for i in ids}
    # records without nucleotides in the middle of the text given on standard input (its reader accepts them, --skip-empty
    # drops them at the writer): the records that follow them must all come out
    hole_ids = list(range(nrec + 50, nrec + 75))
    holes = {nrec + 53, nrec + 54, nrec + 60, nrec + 74}
    mkfile("holes.fa", hole_ids, holes)
    order["holes.fa"] = hole_ids
    maxid = nrec + 75
    lenvec = [lens.get(i, 0) for i in range(1, maxid + 1)]
    cntvec = [cnts.get(i, 0) for i in range(1, maxid + 1)]
    cpus = [1, 2, 3, 8, 32] if thorough else [1, 2, 3, 8]
    bss = [1, 2, 3, 7, 1000] if thorough else [1, 2, 7, 1000]
    jobs, evs = [], []
    for fs in sets:
        for cpu in cpus:
            for bs in bss:
                for cmd, extra, minlen in (("obiconvert", [], 0), ("obigrep", ["-l", "40"], 40), ("obiannotate", ["--length"], 0)):
                    argv = [os.path.join(bindir, cmd), "--max-cpu", str(cpu), "--batch-size", str(bs)] + extra + fs
                    jobs.append({"argv": argv, "cwd": d})
                    evs.append({"op": "cmd", "cmd": cmd, "argv": [cmd, "--max-cpu", str(cpu), "--batch-size", str(bs)] + extra + fs,
                                "cpu": cpu, "bs": bs, "files": [order[f] for f in fs if f in order], "lens": lenvec, "minlen": minlen,
                                "hung": 0, "fatal": 0, "_dirs": [f for f in fs if f not in order]})
                for cmd in ("obicount", "obisummary"):
                    argv = [os.path.join(bindir, cmd), "--max-cpu", str(cpu), "--batch-size", str(bs)] + fs
                    jobs.append({"argv": argv, "cwd": d})
                    evs.append({"op": "count", "cmd": cmd, "argv": [cmd, "--max-cpu", str(cpu), "--batch-size", str(bs)] + fs,
                                "cpu": cpu, "bs": bs, "files": [order[f] for f in fs if f in order], "lens": lenvec, "counts": cntvec,
                                "hung": 0, "fatal": 0, "_dirs": [f for f in fs if f not in order]})
    for cpu in cpus:
        for bs in (2, 1000):
            # (standard input only: the reader of file arguments refuses a record without nucleotides)
            for stdin in (os.path.join(d, "holes.fa"),):
                argv = ["obiconvert", "--max-cpu", str(cpu), "--batch-size", str(bs), "--skip-empty"] + ([] if stdin else ["holes.fa"])
                jobs.append({"argv": [os.path.join(bindir, argv[0])] + argv[1:], "cwd": d, "stdin": stdin})
                evs.append({"op": "cmd", "cmd": "obiconvert", "argv": argv + (["<", "holes.fa"] if stdin else []), "cpu": cpu, "bs": bs,
                            "files": [hole_ids], "lens": [0] * maxid, "minlen": 1, "hung": 0, "fatal": 0, "_dirs": []})
    for e in evs:
        e["lens"] = [lens.get(i, 0) for i in range(1, maxid + 1)]
        if "counts" in e:
            e["counts"] = [cnts.get(i, 0) for i in range(1, maxid + 1)]
    res = ctx.run_many(jobs, timeout=120)
    import json as _json
    for e, r in zip(evs, res):
        e["rc"] = r["rc"]
        e["hung"] = 1 if r["timeout"] else 0
        text = r["out"].decode("utf8", "replace")
        dirs = e.pop("_dirs")
        if e["op"] == "cmd":
            e["out"] = [int(l[2:].split()[0]) for l in text.splitlines() if l.startswith(">r")]
        if dirs:
            # the files below the directories, in the order their first records come out (files without record last)
            below = [f for f in dirfiles if any(f.startswith(x + "/") for x in dirs)]
            seen = []
            for i in e.get("out", []):
                f = fileof.get(i)
                if f in below and f not in seen:
                    seen.append(f)
            e["files"] = e["files"] + [order[f] for f in seen + sorted(f for f in below if f not in seen)]
        if e["op"] == "cmd":
            continue
        e["variants"] = e["reads"] = e["symbols"] = -1
        e["out"] = []
        try:
            if e["cmd"] == "obicount":
                kv = dict(l.split(",") for l in text.split() if "," in l)
                e["variants"], e["reads"], e["symbols"] = int(kv["variants"]), int(kv["reads"]), int(kv["symbols"])
            else:
                c = _json.loads(text)["count"]
                e["variants"], e["reads"], e["symbols"] = int(c["variants"]), int(c["reads"]), int(c["total_length"])
        except Exception:
            pass
    return evs


def main(ctx):
    thorough = ctx.tier == "thorough"
    if ctx.replay:
        blob = json.load(open(ctx.replay))
        case = blob["case"]
        if "push" in case:     # a trace event: re-validate it
            tr = ctx.path("trace.ndjson")
            vlib.write_ndjson(tr, [case])
            events, rejects = ctx.trace_validate("StreamTrace", "StreamTrace.cfg", tr)
            for r in rejects:
                ctx.violation("C03.trace." + events[r["l"] - 1]["op"] + "." + r["why"], "", "recorded event rejected again", case)
            return ctx.finish()
        cases = ctx.path("cases.ndjson")
        vlib.write_ndjson(cases, [case])
        res = ctx.path("res.ndjson")
        ctx.harness(["replay", "C03", "--cases", cases, "--out", res])
        ctx.add_results(res)
        return ctx.finish()

    cases = ctx.path("cases.ndjson")
    ctx.tlc_model("StreamCases", "StreamCases_thorough.cfg" if thorough else "StreamCases_quick.cfg",
                  env={"VERIF_CASES": cases}, timeout=1500)
    if thorough:     # five batches of 0/1 records: every arrival permutation of 5 (120) x parameters, appended to the same case file
        ctx.tlc_model("StreamCases", "StreamCases_thorough5.cfg", env={"VERIF_CASES": cases}, timeout=1500)
    sched = ctx.path("sched.ndjson")
    ctx.tlc_model("Pipeline", "Pipeline_sched_thorough.cfg" if thorough else "Pipeline_sched.cfg",
                  env={"VERIF_CASES": sched}, timeout=1500, deadlock_check=True)
    ctx.tlc_model("Pipeline", "Pipeline_thorough.cfg" if thorough else "Pipeline_quick.cfg", timeout=1500, deadlock_check=True)
    # unbounded: the re-sequencing buffer of SortBatches is proved correct with TLAPS for EVERY number of batches and every
    # arrival history (spec/ind/ReseqProofs.tla); PipelineReseq checks that Pipeline.tla refines the proved module
    ctx.tlapm("ReseqProofs.tla", needs=("ReseqProof.tla",))
    ctx.tlc_model("PipelineReseq", "PipelineReseq_thorough.cfg" if thorough else "PipelineReseq_quick.cfg", timeout=900)
    # implementation-shaped state machines of Rebatch / FilterEmpty / DivideOn / Distribute refine the closed forms
    ctx.tlc_model("CommandMC", "CommandMC.cfg", timeout=900)     # the layers compose: stdout / totals in closed form
    ctx.tlc_model("Combinators", "Combinators_thorough.cfg" if thorough else "Combinators_quick.cfg", timeout=1500, deadlock_check=True)
    a = vlib.read_cases(cases)
    s = vlib.read_cases(sched)
    for x in s:
        x["op"] = "sched"
    ctx.expect_vacuity("stream cases", len(a))
    ctx.expect_vacuity("schedules", len(s))
    allc = ctx.path("all.ndjson")
    vlib.write_ndjson(allc, a + s)
    res = ctx.path("res.ndjson")
    ctx.harness(["replay", "C03", "--cases", allc, "--out", res], timeout=1500)
    summ = ctx.add_results(res)
    if summ["checked"] != len(a) + len(s) and not summ.get("aborted_after_failures"):
        raise vlib.Inconclusive("replayed %d of %d cases" % (summ["checked"], len(a) + len(s)))
    for need in ("sort", "rebatch", "filter", "divide", "distribute", "concat", "pair", "fragments", "merge", "sched", "sched/reproduced"):
        ctx.expect_vacuity("class " + need, ctx.classes.get(need, 0))
    if ctx.classes.get("sched/unreached", 0) > len(s) // 4:
        raise vlib.Inconclusive("too many schedules could not be forced on the real pool: %s" % ctx.classes)
    ctx.extra["schedules_forced"] = ctx.classes.get("sched/reproduced", 0)

    trace = ctx.path("trace.ndjson")
    ctx.harness(["record", "C03", "--out", trace, "--n", 3000 if thorough else 600], timeout=1200)
    events, rejects = ctx.trace_validate("StreamTrace", "StreamTrace.cfg", trace)
    for r in rejects:
        ev = events[r["l"] - 1]
        first_empty = "first-empty" if (len(ev["sizes"]) == 0 or sum(ev["sizes"]) == 0) else "first-nonempty"
        ctx.violation("C03.trace.%s.%s" % (ev["op"], r["why"]), first_empty,
                      "real %s run rejected by StreamTrace (%s): out=%s" % (ev["op"], r["why"], ev["out"]), ev)
    ctx.samples.append({"trace_event": events[0]})

    # end to end: the real binaries over a (max-cpu, batch-size) grid, validated by the same trace spec
    cmd_events = command_events(ctx, thorough)
    tr2 = ctx.path("trace_cmd.ndjson")
    vlib.write_ndjson(tr2, cmd_events)
    events2, rejects2 = ctx.trace_validate("StreamTrace", "StreamTrace.cfg", tr2)
    for r in rejects2:
        ev = events2[r["l"] - 1]
        ctx.violation("C03.cmd.%s.%s" % (ev["cmd"], r["why"]), "cpu=%d bs=%d" % (ev["cpu"], ev["bs"]),
                      "%s rejected by StreamTrace (%s): rc=%d out=%s totals=%s" % (" ".join(ev["argv"]), r["why"], ev["rc"], ev["out"][:40],
                                                                              [ev.get("variants"), ev.get("reads"), ev.get("symbols")]), ev)
    ctx.samples.append({"command_event": {k: cmd_events[0][k] for k in ("argv", "rc", "out")}})
    ctx.assumptions += ["unbuffered channels: the harness is the only producer, so push order = arrival order",
                        "records are distinct integers; per-record work is keep/drop (value semantics of workers is C05/C16)"]
    return ctx.finish(rule="case = (combinator, batch sizes, arrival permutation, parameters) or a worker-pool emit schedule; trace event = one run of a nondeterministic combinator")

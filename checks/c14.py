"""C14 - taxonomy queries agree with the tree: LCA, lineage, clade, rank, aliases.

M: TLC on spec/L0_kernel/TaxModel.tla: every labelled rooted tree up to MaxN nodes x rank assignments x
   merged-id aliases; laws of the property (LCA = deepest common ancestor, commutative, associative,
   idempotent; path, clade, rank, alias, filter laws) and agreement of the walking definitions (shape of
   pkg/obitax) with the reference definitions; one exported case per taxonomy with every expected answer.
R: every exported taxonomy is loaded into the real obitax.Taxonomy (API) and through a synthetic NCBI
   dump (ncbitaxdump.LoadNCBITaxDump); every query is compared with the exported table; on a seeded
   sample the real obigrep / obiannotate binaries are run on the dump directory.
T: random trees up to thousands of nodes (chains, stars, brooms...), load + query events validated by
   spec/trace/TaxTrace.tla (stateful: the loaded taxonomy), including binary runs with random options.
"""
import json
import os

import vlib


def load_own_findings(ctx):
    """known entries of findings_C14.json are honoured even before the maintainer merges them."""
    p = os.path.join(vlib.VERIF, "findings_C14.json")
    if os.path.exists(p):
        have = {e.get("id") for e in ctx.findings.entries}
        for e in json.load(open(p)):
            if e.get("property") == "C14" and e.get("id") not in have:
                ctx.findings.entries.append(e)


def validate_trace(ctx, trace, timeout):
    events, rejects = ctx.trace_validate("TaxTrace", "TaxTrace.cfg", trace, timeout=timeout)
    run = ctx.tlc_runs[-1]
    if run["distinct"] != len(events):
        raise vlib.Inconclusive("TaxTrace judged %d of %d events (trace not made of load-led segments?)"
                                % (run["distinct"], len(events)))
    nload = sum(1 for e in events if e["e"] == "load")
    seen = set()
    for r in rejects:
        if r["l"] in seen:
            continue
        seen.add(r["l"])
        ev = events[r["l"] - 1]
        k = r["l"] - 1
        while events[k]["e"] != "load":
            k -= 1
        load = events[k]
        tdef = {f: load[f] for f in ("parent", "rank", "name", "alias")}
        if ev["e"] == "load":
            if r["why"] == "bad-input":
                raise vlib.Inconclusive("harness generated a malformed taxonomy (event %d)" % r["l"])
            ctx.violation("C14.trace.load", "load",
                          "loading a %d-node taxonomy: %s loaded=%s err=%s" %
                          (len(load["parent"]), r["why"], load["loaded"], load["err"]),
                          {"kind": "trace", "load": tdef, "queries": []})
            continue
        small = tdef if len(load["parent"]) <= 40 else "(%d nodes, see replay file)" % len(load["parent"])
        what = "resolve" if r["why"] == "unresolved" else ev["op"]
        ctx.violation("C14.trace.%s" % what, ev["src"],
                      "TaxTrace rejects (%s) on a %s tree: %s a=%s b=%s k=%s in=%s sets=%s -> res=%s s=%s err=%s on %s" %
                      (r["why"], load.get("shape", ""), ev["op"], ev["a"], ev["b"], ev["k"], ev["in"], ev["sets"], ev["res"], ev["s"],
                       ev["err"][:300], small),
                      {"kind": "trace", "load": tdef, "queries": [ev]})
    return events, nload


def main(ctx):
    thorough = ctx.tier == "thorough"
    load_own_findings(ctx)
    bindir = ctx.build_cmds(["obigrep", "obiannotate"])

    if ctx.replay:
        blob = json.load(open(ctx.replay))
        case = blob["case"]
        if case.get("kind") == "trace":
            script = ctx.path("script.json")
            json.dump(case, open(script, "w"))
            trace = ctx.path("trace.ndjson")
            ctx.harness(["record", "C14", "--out", trace, "--opt", "script=" + script, "--opt", "bindir=" + bindir])
            validate_trace(ctx, trace, 600)
        else:
            cases = ctx.path("cases.ndjson")
            vlib.write_ndjson(cases, [case])
            res = ctx.path("res.ndjson")
            ctx.harness(["replay", "C14", "--cases", cases, "--out", res, "--opt", "bindir=" + bindir])
            ctx.add_results(res)
        return ctx.finish()

    # M ---------------------------------------------------------------------------------------
    raw = ctx.path("cases_raw.ndjson")
    cfg = "TaxModel_thorough.cfg" if thorough else "TaxModel_quick.cfg"
    m = ctx.tlc_model("TaxModel", cfg, env={"VERIF_CASES": raw}, timeout=3000)
    try:
        allcases = vlib.read_cases(raw)
    except ValueError as ex:
        raise vlib.Inconclusive("torn line in the exported cases: %s" % ex)
    if 2 * len(allcases) != m.distinct:
        raise vlib.Inconclusive("exported %d cases for %d taxonomies" % (len(allcases), m.distinct // 2))
    ctx.expect_vacuity("exported taxonomies", len(allcases))
    ctx.extra["exported_cases"] = len(allcases)
    ctx.extra["max_nodes_model"] = max(len(c["parent"]) for c in allcases)

    # M + R, the life of a Taxonomy object -------------------------------------------------------
    # TaxLife.tla: every history of AddNewTaxa (declare / re-declare with replace) and ReindexParent calls;
    # theorem Agreement: once indexed, walking the parent pointers is walking the declared tree.  The variant
    # that leaves linked objects alone must break it (negative test of the model).  Every history that ends
    # indexed is replayed on a real obitax.Taxonomy.
    life = ctx.path("life.ndjson")
    lm = ctx.tlc_model("TaxLifeMC", "TaxLife_thorough.cfg" if thorough else "TaxLife_quick.cfg",
                       env={"VERIF_CASES": life}, timeout=3000)
    neg = ctx.tlc("TaxLifeMC", "TaxLife_incremental.cfg", timeout=600, count=False)
    if "Agreement" not in neg.invariant_violated:
        raise vlib.Inconclusive("negative test: incremental re-indexing should break Agreement in TaxLife.tla")
    lres = ctx.path("life_res.ndjson")
    ctx.harness(["replay", "C14life", "--cases", life, "--out", lres], timeout=3000)
    lsum = ctx.add_results(lres)
    os.remove(life)
    for need in ("life.plain", "life.redeclared", "life.redeclared+reindexed-twice", "life.pair.redeclared+reindexed-twice"):
        ctx.expect_vacuity("class " + need, ctx.classes.get(need, 0))
    ctx.extra["life_histories_model_states"] = lm.distinct
    ctx.extra["life_taxa_checked"] = lsum["checked"]

    # R ---------------------------------------------------------------------------------------
    ncmd = 1500 if thorough else 150
    # the binaries run on a seeded sample, always including the extreme shapes of every size
    idx = list(range(len(allcases)))
    chosen = set(vlib.sample(ctx.rng, idx, ncmd))
    for c in allcases:
        c.pop("cmd", None)
    for i in chosen:
        allcases[i]["cmd"] = True
    cases = ctx.path("cases.ndjson")
    vlib.write_ndjson(cases, allcases)
    res = ctx.path("res.ndjson")
    ctx.harness(["replay", "C14", "--cases", cases, "--out", res, "--opt", "bindir=" + bindir], timeout=3000)
    summ = ctx.add_results(res)
    if summ["checked"] != len(allcases):
        raise vlib.Inconclusive("replayed %d of %d cases" % (summ["checked"], len(allcases)))
    for need in ("shape.chain", "shape.star", "shape.fork", "shape.bushy", "cases.root_not_1", "cases.cmd",
                 "api.lca", "dump.lca", "api.path", "dump.path", "api.clade", "dump.clade", "api.atrank", "dump.atrank",
                 "api.resolve", "dump.resolve", "api.seq_lca", "dump.seq_lca_worker", "api.seq_restrict",
                 "dump.seq_atrank", "cmd.cmd_grep", "cmd.cmd_atrank", "cmd.cmd_lca",
                 "scn.lca_same_taxon", "scn.lca_ancestor_and_descendant", "scn.lca_unequal_depths", "scn.lca_equal_depths",
                 "scn.lca_through_alias", "scn.lca_with_root", "scn.atrank_none", "scn.atrank_self", "scn.atrank_is_root",
                 "scn.atrank_inner_ancestor", "scn.resolve_unknown_id", "scn.resolve_merged_id"):
        ctx.expect_vacuity("class " + need, ctx.classes.get(need, 0))
    ctx.extra["transient_binary_crashes_repeated_ok"] = ctx.classes.get("cmd.transient_crash_repeated_ok", 0)
    if ctx.extra["transient_binary_crashes_repeated_ok"]:
        vlib.log("note: %d binary run(s) crashed once and succeeded when repeated (see samples in the evidence)"
                 % ctx.extra["transient_binary_crashes_repeated_ok"])
    ctx.extra["comparisons_with_model_tables"] = sum(v for k, v in ctx.classes.items()
                                                     if k.split(".")[0] in ("api", "dump", "cmd"))

    # T ---------------------------------------------------------------------------------------
    trace = ctx.path("trace.ndjson")
    ntrees = 160 if thorough else 30
    ctx.harness(["record", "C14", "--out", trace, "--n", ntrees, "--opt", "bindir=" + bindir,
                 "--opt", "queries=%d" % (500 if thorough else 240), "--opt", "maxn=5000",
                 "--opt", "cmdtrees=%d" % (24 if thorough else 6)], timeout=1500)
    events, nload = validate_trace(ctx, trace, 3000)
    ops = {}
    for e in events:
        if e["e"] == "q":
            ops[e["op"]] = ops.get(e["op"], 0) + 1
    for need in ("lca", "path", "sub", "clade", "atrank", "resolve", "seq_lca", "seq_restrict", "cmd_grep", "cmd_atrank", "cmd_lca"):
        ctx.expect_vacuity("trace op " + need, ops.get(need, 0))
    sizes = [len(e["parent"]) for e in events if e["e"] == "load"]
    ctx.expect_vacuity("trace trees of thousands of nodes", sum(1 for s in sizes if s >= 2000))
    ctx.extra["trace_trees"] = nload
    ctx.extra["trace_max_nodes"] = max(sizes)
    ctx.extra["trace_ops"] = ops
    q = next(e for e in events if e["e"] == "q" and e["op"] == "lca")
    ctx.samples.append({"trace_event": q})
    ctx.assumptions += [
        "taxids of the nodes are 1..n (the root is any of them); merged ids and unknown ids lie outside",
        "rank/name payloads are plain ASCII labels; the NCBI dump is written in the documented '\\t|\\t' layout",
        "sequence-level LCA is checked for zero error tolerance only (threshold 1.0), as the property states",
    ]
    ctx.extra["exhaustive"] = True
    return ctx.finish(rule="one case per taxonomy (labelled rooted tree x rank assignment x alias variant), all queries "
                           "replayed through both loaders; binaries on a seeded sample; trace events are single queries "
                           "on a loaded random taxonomy")

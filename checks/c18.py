"""C18 - output write failures are reported, never followed by a successful exit.

M: WriterFault.tla (writer goroutine + bufio(CAP) + sink failing after K bytes / on Close; all arrival
   histories x chunk length classes x fault offsets): NoSilentLoss, FaultReported, NoFalseAlarm, liveness;
   the four surfacing sites (direct write, drained write, flush at close, close) must all be reached.
R: every exported case x 4 writers x {plain, gzip} on a failing io.WriteCloser (sequential per process,
   sharded over 16 processes).
T: exhaustive fault offsets on small outputs + the real commands writing to /dev/full and to a closed
   pipe, validated by WriterFaultTrace.tla.
"""
import json
import os
import vlib

FMTS = ["fasta", "fastq", "json", "csv"]


def shard_run(ctx, mode, cases, nshards=16, extra=()):
    """run the harness on shards in parallel processes; returns result files"""
    h = ctx.build_harness()
    jobs, outs = [], []
    for i in range(nshards):
        part = cases[i::nshards]
        if not part:
            continue
        cf = ctx.path("%s_cases_%d.ndjson" % (mode, i))
        of = ctx.path("%s_res_%d.ndjson" % (mode, i))
        vlib.write_ndjson(cf, part)
        jobs.append({"argv": [h, "replay", "C18", "--cases", cf, "--out", of], "env": {"VERIF_SEED": str(ctx.seed)}, "timeout": 1500})
        outs.append(of)
    res = ctx.run_many(jobs, timeout=1500)
    for r in res:
        if r["rc"] != 0:
            raise vlib.Inconclusive("C18 shard failed rc=%s: %s" % (r["rc"], r["err"][-1500:]))
    return outs


def main(ctx):
    thorough = ctx.tier == "thorough"
    if ctx.replay:
        blob = json.load(open(ctx.replay))
        case = blob["case"]
        if case.get("op") in ("cmd", "cmdslow", "fault"):
            tr = ctx.path("trace.ndjson")
            vlib.write_ndjson(tr, [case])
            events, rejects = ctx.trace_validate("WriterFaultTrace", "WriterFaultTrace.cfg", tr)
            for r in rejects:
                ctx.violation("C18.trace." + r["why"], "", "recorded event rejected again (re-run the tier to re-record)", case)
            return ctx.finish()
        for of in shard_run(ctx, "replay", [case], 1):
            ctx.add_results(of)
        return ctx.finish()

    cases = ctx.path("cases.ndjson")
    ctx.tlc_model("WriterFault", "WriterFault_thorough.cfg" if thorough else "WriterFault_quick.cfg",
                  env={"VERIF_CASES": cases}, timeout=1500)
    model_cases = vlib.read_cases(cases)
    surf = {}
    for c in model_cases:
        surf[c["surfaced"]] = surf.get(c["surfaced"], 0) + 1
    for need in ("write-direct", "write-drained", "flush", "close", "none"):
        ctx.expect_vacuity("model surfacing site " + need, surf.get(need, 0))
    ctx.extra["model_surfacing_sites"] = surf
    # a seeded sample of the histories, every surfacing class kept (each case is run on 4 writers x 2 compressions;
    # a process keeps the goroutines of the runs that ended in log.Fatal, so the number of runs per process is bounded)
    by = {}
    for c in model_cases:
        by.setdefault(c["surfaced"], []).append(c)
    model_cases = [c for k in sorted(by) for c in vlib.sample(ctx.rng, by[k], 1200 if thorough else 120)]
    ctx.extra["model_cases_replayed"] = len(model_cases)
    expanded = []
    for c in model_cases:
        for f in FMTS:
            for z in (0, 1):
                d = dict(c)
                d["fmt"] = f
                d["compressed"] = z
                expanded.append(d)
    ctx.rng.shuffle(expanded)
    for of in shard_run(ctx, "replay", expanded):
        ctx.add_results(of)
    for f in FMTS:
        for s in ("write-direct", "write-drained", "flush", "close"):
            ctx.expect_vacuity("class %s/z0/%s" % (f, s), ctx.classes.get("%s/z0/%s" % (f, s), 0))

    # T: exhaustive offsets on small outputs
    trace = ctx.path("trace.ndjson")
    ctx.harness(["record", "C18", "--out", trace, "--n", 64 if thorough else 16], timeout=1500)
    evs = [json.loads(l) for l in open(trace) if l.strip()]
    evs += command_events(ctx)
    vlib.write_ndjson(trace, evs)
    events, rejects = ctx.trace_validate("WriterFaultTrace", "WriterFaultTrace.cfg", trace)
    for r in rejects:
        ev = events[r["l"] - 1]
        if ev["op"] == "cmdslow":
            ctx.violation("C18.cmd." + r["why"], ev["cls"], "%s -> rc=%d with %d of %d records delivered" % (ev["argv"], ev["rc"], ev["got"], ev["want"]), ev)
        elif ev["op"] == "cmd":
            ctx.violation("C18.cmd." + r["why"], ev["cls"], "%s -> rc=%d" % (ev["argv"], ev["rc"]), ev)
        else:
            ctx.violation("C18.%s.trace_%s" % (ev["fmt"], r["why"]), "z%d" % ev["compressed"],
                          "k=%d of %d failclose=%d: fatal=%d accepted=%d" % (ev["k"], ev["total"], ev["failclose"], ev["fatal"], ev["accepted"]), ev)
    ctx.samples.append({"trace_event": events[0]})
    ctx.assumptions += ["a write failure is reported through log.Fatal (exit status != 0); captured in process by the logrus exit hook",
                        "abstract fault offsets are mapped proportionally on the real output length; the surfacing site of the real run may differ from the model's (counted, not asserted)"]
    return ctx.finish(rule="case = (chunk length classes, arrival history, fault offset, failing close) x writer x compression; trace event = one run at one fault offset, or one command run on a failing output")


def command_events(ctx):
    bindir = ctx.build_cmds(["obiconvert", "obicsv"])
    d = ctx.path("c18files")
    os.makedirs(d, exist_ok=True)
    small = os.path.join(d, "small.fa")
    big = os.path.join(d, "big.fa")
    with open(small, "w") as f:
        for i in range(3):
            f.write(">s%d\nacgtacgtac\n" % i)
    with open(big, "w") as f:
        for i in range(3000):
            f.write(">b%d\n%s\n" % (i, "acgtacgtacgtagctagctagctagcatcgatcgatcgatcgatgcatgc" * 3))
    conv = os.path.join(bindir, "obiconvert")
    csv = os.path.join(bindir, "obicsv")
    jobs, evs = [], []

    def add(argv, cls, shell=False):
        jobs.append({"argv": ["/bin/bash" if shell == "bash" else "/bin/sh", "-c", argv] if shell else argv, "cwd": d})
        evs.append({"op": "cmd", "argv": argv if shell else " ".join(os.path.basename(a) for a in argv), "cls": cls, "hung": 0})
    for inp, tag in ((small, "small"), (big, "big")):
        for extra, name in (([], "fasta"), (["--fastq-output"], "fastq"), (["--json-output"], "json"), (["-Z"], "gz")):
            for cpu in ("1", "4"):
                add([conv, "--max-cpu", cpu] + extra + ["-o", "/dev/full", inp], "devfull/%s/%s" % (tag, name))
        # obicsv ignores -o (always writes to stdout; outside C18): the failing output is stdout
        add("%s --ids --sequence %s > /dev/full" % (csv, inp), "stdout-devfull/%s/csv" % tag, shell=True)
        # stdout on a full device
        add("%s %s > /dev/full" % (conv, inp), "stdout-devfull/%s/fasta" % tag, shell=True)
        add("%s --json-output %s > /dev/full" % (conv, inp), "stdout-devfull/%s/json" % tag, shell=True)
    # the output must exceed what a pipe holds (64 KiB by default, 1 MiB at most) even once compressed: random sequences
    import random
    rnd = random.Random(ctx.seed)
    huge = os.path.join(d, "huge.fa")
    with open(huge, "w") as f:
        for i in range(40000):
            f.write(">h%d\n%s\n" % (i, "".join(rnd.choice("acgt") for _ in range(150))))
    # a closed pipe: (a) an output opened by name that is a pipe whose reader takes 100 bytes and leaves (EPIPE comes
    # back from write(2)); (b) standard output piped into such a reader (the run time turns EPIPE on fd 1 into SIGPIPE)
    for extra, name in (([], "fasta"), (["--fastq-output"], "fastq"), (["--json-output"], "json"), (["-Z"], "gz")):
        for cpu in ("1", "4"):
            fifo = "fifo_%s_%s" % (name, cpu)
            add("rm -f %s; mkfifo %s; head -c 100 < %s > /dev/null & %s --max-cpu %s %s -o %s %s; rc=$?; wait; exit $rc"
                % (fifo, fifo, fifo, conv, cpu, " ".join(extra), fifo, huge), "closedpipe-named/huge/%s" % name, shell=True)
        add("%s %s %s | head -c 100 > /dev/null; exit ${PIPESTATUS[0]}" % (conv, " ".join(extra), huge), "closedpipe-stdout/huge/%s" % name, shell="bash")
    add("%s --ids --sequence %s | head -c 100 > /dev/null; exit ${PIPESTATUS[0]}" % (csv, huge), "closedpipe-stdout/huge/csv", shell="bash")
    # the command is stopped by a signal while its output is blocked (a reader that holds the pipe and takes nothing):
    # the result has not reached the output, the exit status cannot be 0
    for extra, name in (([], "fasta"), (["--json-output"], "json")):
        for sig in ("TERM", "INT", "HUP"):
            fifo = "fifo_sig_%s_%s" % (name, sig)
            add("rm -f %s; mkfifo %s; sleep 60 < %s > /dev/null & r=$!; %s --max-cpu 2 %s -o %s %s & p=$!; sleep 2; kill -%s $p; wait $p; rc=$?; "
                "kill $r 2>/dev/null; exit $rc" % (fifo, fifo, fifo, conv, " ".join(extra), fifo, huge, sig), "signal-%s/huge/%s" % (sig, name), shell="bash")
    # a reader that takes the whole output, but only after 12 s (a busy consumer, a slow device): no fault at all, the command
    # may exit 0 only with every record delivered (a result of a few batches, larger than what the pipe holds: the
    # pipeline is drained at once, the last writes wait for the reader)
    slow = []
    for cmd, extra, name in ((conv, ["--json-output"], "json"), (csv, ["--ids", "--sequence"], "csv"), (conv, [], "fasta")):
        out = os.path.join(d, "slow_%s.out" % name)
        jobs.append({"argv": ["/bin/bash", "-c", "%s --max-cpu 2 %s %s | (sleep 12; cat > %s); exit ${PIPESTATUS[0]}" % (cmd, " ".join(extra), big, out)], "cwd": d})
        evs.append({"op": "cmdslow", "argv": "%s %s big.fa | (sleep 12; cat)" % (os.path.basename(cmd), " ".join(extra)), "cls": "slow-reader/big/" + name,
                    "hung": 0, "want": 3000, "got": -1, "_out": out, "_fmt": name})
    res = ctx.run_many(jobs, timeout=120)
    for e, r in zip(evs, res):
        e["rc"] = r["rc"]
        e["hung"] = 1 if r["timeout"] else 0
        if e["op"] == "cmdslow":
            out, fmt = e.pop("_out"), e.pop("_fmt")
            try:
                text = open(out, "rb").read()
                e["got"] = {"json": text.count(b'"id"'), "csv": max(text.count(b"\n") - 1, 0), "fasta": text.count(b">")}[fmt]
            except OSError:
                e["got"] = 0
    return evs

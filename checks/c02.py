"""C02 - write then read round-trips records unchanged (FASTA/FASTQ + JSON title-line annotations).

M: JsonHeader.tla (title-line scanner automaton vs the JSON string grammar on every title line
   `Object tail` whose string content ranges over all token strings up to a bound; the as-written scanner
   is the negative test: TLC must find the escaped-quote counter-example) and RoundTrip.tla (record -> Write
   -> Read -> Write -> Read -> Write: identity, fixed point, folding, score arithmetic, length check).
R: every exported title line on the real ParseFastSeqJsonHeader / ParseGuessedFastSeqHeader (directly and
   behind the FASTA/FASTQ chunk parsers); every exported record text through the real chunk parsers, header
   parser and formatters (4 shift pairs x 2 header parsers).
T: random records (arbitrary Unicode, floats, ints up to 2^53, nested values) and random title lines on the
   real code, plus `obiconvert | obiconvert` on the real binaries (--fasta-output/--fastq-output/--solexa);
   RoundTripTrace.tla evaluates the specification on each logged event.
"""
import json
import os
import vlib

OUTFLAG = {"same": [], "fasta": ["--fasta-output"], "fastq": ["--fastq-output"]}


def split_lines(data):
    parts = data.split(b"\n")
    if parts and parts[-1] == b"":
        parts = parts[:-1]
    return [list(p) for p in parts]


ENV_FAILURE = ("fatal error: runtime", "out of memory", "cannot allocate memory", "failed to create new OS thread",
               "resource temporarily unavailable", "too many open files")


def run_cmds(ctx, jobs, timeout=120):
    """like ctx.run_many, but keeps the whole stderr: a crash must be told from a resource failure of the sandbox"""
    import subprocess
    from concurrent.futures import ThreadPoolExecutor

    def one(j):
        fin = open(j["stdin"], "rb") if j.get("stdin") else subprocess.DEVNULL
        try:
            p = subprocess.run(j["argv"], stdin=fin, capture_output=True, timeout=timeout)
            return {"rc": p.returncode, "out": p.stdout, "err": p.stderr.decode("utf8", "replace"), "timeout": False}
        except subprocess.TimeoutExpired as ex:
            return {"rc": -1, "out": ex.stdout or b"", "err": "timeout", "timeout": True}
        finally:
            if j.get("stdin"):
                fin.close()
    with ThreadPoolExecutor(max_workers=vlib.NCPU) as ex:
        res = list(ex.map(one, jobs))
    for k, (j, r) in enumerate(zip(jobs, res)):
        if r["rc"] != 0:
            # a round-trip defect is deterministic: re-run a failed command once; a failure that does not
            # reproduce (crash under the load of the shared sandbox, scheduling race: not C02's subject) is
            # written to the evidence as a note and the second run is used
            r2 = one(j)
            if r2["rc"] == 0:
                ctx.extra.setdefault("notes", []).append("transient failure (not reproduced on re-run) of %s: rc=%s %s" % (
                    " ".join(j["argv"][1:]), r["rc"], "\n".join(l for l in r["err"].splitlines() if "level=info" not in l)[:500]))
                vlib.log("transient command failure rc=%s: %s" % (r["rc"], " ".join(j["argv"])))
                res[k] = r = r2
        if r["rc"] != 0 and any(k in r["err"] for k in ENV_FAILURE):
            raise vlib.Inconclusive("resource failure of the sandbox while running %s: %s" % (" ".join(j["argv"]), r["err"][:400]))
        # what matters of stderr: the lines that are not progress information
        r["err"] = "\n".join(l for l in r["err"].splitlines() if "level=info" not in l)[:600]
    return res


def command_events(ctx, thorough):
    """obiconvert | obiconvert on files written by the library writer (shift 33 and 64)."""
    bindir = ctx.build_cmds(["obiconvert"])
    conv = os.path.join(bindir, "obiconvert")
    d = ctx.path("cmdfiles")
    man = ctx.path("files.ndjson")
    ctx.harness(["record", "C02", "--out", man, "--n", 36 if thorough else 12, "--opt", "dir=" + d], timeout=300)
    files = [json.loads(x) for x in open(man) if x.strip()]
    if not files:
        raise vlib.Inconclusive("no input file was written for the command-level runs")
    # stage 1: file (or stdin) -> out1
    s1 = []
    for k, f in enumerate(files):
        for o1 in ("same", "fasta", "fastq"):
            argv = [conv, "--max-cpu", str(1 + k % 4)] + (["--solexa"] if f["shift"] == 64 else []) + OUTFLAG[o1]
            stdin = None
            if (k + len(o1)) % 3 == 0:
                stdin = f["file"]
            else:
                argv = argv + [f["file"]]
            s1.append({"f": f, "o1": o1, "argv": argv, "stdin": stdin})
    r1 = run_cmds(ctx, [{"argv": j["argv"], "stdin": j["stdin"]} for j in s1])
    for j, r in zip(s1, r1):
        j["res"] = r
        j["out"] = ctx.path("s1_%d.out" % id(j))
        open(j["out"], "wb").write(r["out"])
    # stage 2: stdin -> out2 (always the default input shift: the first stage wrote shift 33)
    s2 = []
    for j in s1:
        for o2 in ("same", "fasta", "fastq"):
            s2.append({"j": j, "o2": o2, "argv": [conv, "--max-cpu", "2"] + OUTFLAG[o2]})
    r2 = run_cmds(ctx, [{"argv": x["argv"], "stdin": x["j"]["out"]} for x in s2])
    evs = []
    for x, r in zip(s2, r2):
        j = x["j"]
        f = j["f"]
        out1 = f["fmt"] if j["o1"] == "same" else j["o1"]
        out2 = out1 if x["o2"] == "same" else x["o2"]
        evs.append({"op": "cmd", "infmt": f["fmt"], "si": f["shift"], "out1": out1, "out2": out2,
                    "argv": " ".join(["obiconvert"] + j["argv"][1:]) + (" < " + j["stdin"] if j["stdin"] else "") +
                            " | " + " ".join(["obiconvert"] + x["argv"][1:]),
                    "rc1": j["res"]["rc"], "rc2": r["rc"], "hung": 1 if (j["res"]["timeout"] or r["timeout"]) else 0,
                    "t0": split_lines(open(f["file"], "rb").read()), "t1": split_lines(j["res"]["out"]),
                    "t2": split_lines(r["out"]), "err": (j["res"]["err"] + " | " + r["err"])[:800]})
    return evs


def text_of(lines, n=3):
    return [bytes(l).decode("utf8", "replace") for l in lines[:n]]


def report_rejects(ctx, events, rejects):
    for r in rejects:
        ev = events[r["l"] - 1]
        why = r["why"]
        if why.startswith("generator"):
            raise vlib.Inconclusive("the title-line generator produced a line without a JSON object: %s" % text_of([ev["line"]]))
        if ev["op"] == "rt":
            ctx.violation("C02.trace.rt." + why, "%s/%s" % (ev["fmt"], ev["parser"]),
                          "real write/read chain (%s, %s header parser, shifts %d->%d) rejected by RoundTripTrace (%s): %s t0=%s t1=%s" %
                          (ev["fmt"], ev["parser"], ev["si"], ev["so"], why, ev.get("why", ""), text_of(ev["t0"], 2), text_of(ev["t1"], 2)), ev)
        elif ev["op"] == "hdr":
            ctx.violation("C02.trace.hdr." + why, ev["parser"],
                          "title line %s given to the %s header parser rejected by RoundTripTrace (%s): %s definition=%s" %
                          (text_of([ev["line"]]), ev["parser"], why, ev.get("why", ""), text_of([ev["def"]])), ev)
        else:
            ctx.violation("C02.trace.cmd." + why, "%s%d->%s->%s" % (ev["infmt"], ev["si"], ev["out1"], ev["out2"]),
                          "%s rejected by RoundTripTrace (%s): rc=%d,%d t1=%s t2=%s %s" %
                          (ev["argv"], why, ev["rc1"], ev["rc2"], text_of(ev["t1"], 2), text_of(ev["t2"], 2), ev.get("err", "")[:400]), ev)


def main(ctx):
    thorough = ctx.tier == "thorough"
    if ctx.replay:
        blob = json.load(open(ctx.replay))
        case = blob["case"]
        if "fatal" in case or case.get("op") == "cmd":      # a recorded event: let TLC judge it again
            tr = ctx.path("trace.ndjson")
            vlib.write_ndjson(tr, [case])
            events, rejects = ctx.trace_validate("RoundTripTrace", "RoundTripTrace.cfg", tr)
            report_rejects(ctx, events, rejects)
            if case.get("op") == "cmd":
                print("[check] a command event is re-judged as recorded; re-run the tier with VERIF_SEED=%s to re-record it" % blob.get("seed"))
            return ctx.finish()
        cases = ctx.path("cases.ndjson")
        vlib.write_ndjson(cases, [case])
        res = ctx.path("res.ndjson")
        ctx.harness(["replay", "C02", "--cases", cases, "--out", res])
        ctx.add_results(res)
        return ctx.finish()

    # M ---------------------------------------------------------------------------------------
    hdr_cases = ctx.path("hdr_cases.ndjson")
    ctx.tlc_model("JsonHeader", "JsonHeader_thorough.cfg" if thorough else "JsonHeader_quick.cfg",
                  env={"VERIF_CASES": hdr_cases}, timeout=1500)
    if thorough:
        ctx.tlc_model("JsonHeader", "JsonHeader_deep.cfg", env={"VERIF_CASES": hdr_cases}, timeout=1500)
    neg = ctx.tlc("JsonHeader", "JsonHeader_aswritten.cfg", timeout=300, count=False)
    if "ScannerStop" not in neg.invariant_violated:
        raise vlib.Inconclusive("negative test: the scanner as written before the repair must violate ScannerStop in the model")
    ctx.extra["model_counterexample_of_the_as_written_scanner"] = "found by TLC (JsonHeader_aswritten.cfg violates ScannerStop)"
    rt_cases = ctx.path("rt_cases.ndjson")
    ctx.tlc_model("RoundTrip", "RoundTrip_thorough.cfg" if thorough else "RoundTrip_quick.cfg",
                  env={"VERIF_CASES": rt_cases}, timeout=1500, workers=1 if thorough else 4)   # thorough lines exceed 8 KiB: one writer
    try:
        a = vlib.read_cases(hdr_cases)
        b = vlib.read_cases(rt_cases)
    except ValueError as ex:
        raise vlib.Inconclusive("torn line in the cases exported by TLC: %s" % ex)
    ctx.expect_vacuity("exported title lines", len(a))
    ctx.expect_vacuity("exported record cases", len(b))
    ctx.extra["exported_title_lines"] = len(a)
    ctx.extra["exported_record_cases"] = len(b)
    # R ---------------------------------------------------------------------------------------
    allc = ctx.path("all_cases.ndjson")
    vlib.write_ndjson(allc, a + b)
    res = ctx.path("res.ndjson")
    ctx.harness(["replay", "C02", "--cases", allc, "--out", res], timeout=1500)
    summ = ctx.add_results(res)
    want = 6 * len(a) + 2 * len(b) + sum(len(c.get("badq", [])) for c in b)   # 2 header parsers x 3 entry points / 2 header parsers / malformed texts
    if summ["checked"] != want:
        raise vlib.Inconclusive("replayed %d comparisons, %d expected" % (summ["checked"], want))
    for need in ("val/quote-brace/notail/json", "val/quote-brace/tail/guessed", "val/odd-quotes/notail/guessed",
                 "key/quote-brace/tail/json", "nested/escapes/notail/json", "two/odd-quotes/tail/guessed",
                 "defn/quote-brace/notail/json", "defn/plain/tail/guessed",
                 "fasta/special/json", "fastq/special+def/guessed", "fastq/nested/json", "fasta/none/guessed",
                 "fastq/bigint/json", "fasta/mapint+def/json", "reject/shorter", "reject/longer"):
        ctx.expect_vacuity("class " + need, ctx.classes.get(need, 0))
    # T ---------------------------------------------------------------------------------------
    trace = ctx.path("trace.ndjson")
    clsf = ctx.path("gen_classes.json")
    n = 5000 if thorough else 300
    ctx.harness(["record", "C02", "--out", trace, "--n", n, "--opt", "classes=" + clsf], timeout=900)
    gen = json.load(open(clsf))
    for need in ("shape/string", "shape/int", "shape/float", "shape/bool", "shape/mapint", "shape/mapstr", "shape/slice",
                 "shape/nested", "with-definition", "no-annotation", "scores-above-93", "hdr/string", "hdr/nested"):
        ctx.expect_vacuity("generated " + need, gen.get(need, 0))
    ctx.extra["generated_value_classes"] = gen
    cmd_events = command_events(ctx, thorough)
    with open(trace, "a") as f:
        for e in cmd_events:
            f.write(json.dumps(e, separators=(",", ":")) + "\n")
    events, rejects = ctx.trace_validate("RoundTripTrace", "RoundTripTrace.cfg", trace, timeout=1500)
    report_rejects(ctx, events, rejects)
    kinds = {}
    esc = 0
    for e in events:
        kinds[e["op"]] = kinds.get(e["op"], 0) + 1
        if e["op"] == "rt" and any(b'\\"' in bytes(l) for l in e["t0"] if l and l[0] in (62, 64)):
            esc += 1
    for need in ("rt", "hdr", "cmd"):
        ctx.expect_vacuity("trace events " + need, kinds.get(need, 0))
    ctx.expect_vacuity("recorded title lines with an escaped quote", esc)
    combos = set((e["infmt"], e["si"], e["out1"], e["out2"]) for e in cmd_events)
    for need in (("fastq", 64, "fastq", "fastq"), ("fastq", 33, "fasta", "fastq"), ("fasta", 33, "fastq", "fasta"), ("fasta", 33, "fasta", "fasta")):
        ctx.expect_vacuity("command pipeline %s" % (need,), 1 if need in combos else 0)
    ctx.extra["trace_events"] = kinds
    ctx.extra["recorded_title_lines_with_escaped_quote"] = esc
    ev0 = next(e for e in events if e["op"] == "rt")
    ctx.samples.append({"trace_event_rt": {"fmt": ev0["fmt"], "shifts": [ev0["si"], ev0["so"]], "t0": text_of(ev0["t0"], 4), "ann": ev0["r"][0]["ann"][:200]}})
    ev1 = next(e for e in events if e["op"] == "hdr")
    ctx.samples.append({"trace_event_hdr": {"line": text_of([ev1["line"]]), "definition": text_of([ev1["def"]])}})
    ctx.samples.append({"command_event": {"argv": cmd_events[0]["argv"], "rc": [cmd_events[0]["rc1"], cmd_events[0]["rc2"]], "t2": text_of(cmd_events[0]["t2"], 2)}})
    ctx.assumptions += [
        "title lines are `id SP Object tail`: the JSON object comes first (what the writer produces); string contents range over the scanner's 6 character classes",
        "the header text of a record is opaque to RoundTrip.tla (annotation shape classes in the model, bytes in the traces); value fidelity (Unicode, floats, ints <= 2^53) is generated by the harness and compared by TLC as canonical atoms",
        "identifiers contain no blank or control character; annotation keys are not id/sequence/qualities/definition; strings are valid UTF-8; no NaN/Inf",
        "quality shifts are process-wide options of the code under test: record cases are replayed sequentially per shift pair",
    ]
    return ctx.finish(rule="case = one title line (object shape x string content over {{,},\",\\,blank,other}^<=N x tail) or one record "
                           "(format x length x score pattern x shift pair x annotation shape x definition); trace event = one write/read/write/read/write "
                           "chain on 1-3 random records, one random title line, or one obiconvert|obiconvert pipeline")

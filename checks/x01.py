"""X01 (extension check) - the annotation-relational commands: obijoin, obidemerge, obisplit.

Statements: extra/X01.md.  Specification: spec/L3_command/RelJoin.tla, RelDemerge.tla (on Uniq.tla),
SplitCut.tla (on Apat.tla); bounded models RelJoinMC, RelDemergeMC, SplitCutMC; trace spec RelTrace.

M: TLC checks the theorems of the three bounded models (index/intersection algorithm = relational definition,
   left-outer multiplicity, frame, idempotence ...; conservation, one record per value, refinement of
   Uniq!DemergeOne, dereplicating again = identity ...; sites genuine / disjoint / isolated occurrence always a
   site, tiling, flank annotations, strand symmetry) and exports every case with the value(s) the specification allows.
R: every exported case through the real library entry points (MakeJoinWorker, MakeDemergeWorker, SplitPattern), a seeded
   share - and every case that depends on a command-line default - through the real binaries.
T: whole runs of the binaries / of the workers behind MakeIWorker on seeded random data far beyond the models
   (hundreds of records, 120 partner rows, FASTA/FASTQ/CSV tables, reads of 60-700 and > 10 000 bases, several
   batches and workers); RelTrace.tla re-evaluates the specification on every event.
"""
import json
import os

import vlib

BINS = ["obijoin", "obidemerge", "obisplit"]


class Vacuity:
    """Guards are settled at the end and only when nothing was violated (a run in which the real code fails
    everywhere must end as exit 1, not as 'scenario not reached')."""

    def __init__(self):
        self.items = []

    def expect(self, name, n):
        self.items.append((name, n))

    def settle(self, ctx):
        if ctx.violations:
            return
        for name, n in self.items:
            ctx.expect_vacuity(name, n)


def event_class(ev):
    """Scenario class of a trace event (labels only: what was run, never what should come out)."""
    sub, lvl = ev["sub"], ev.get("level", "?")
    if sub == "join":
        uq = ev["flags"][2] == 1 and any(p["seq"] and not p["qual"] for p in ev["part"])
        return "join/trace-%s/%s" % (lvl, "uq-noqual" if uq else "plain")
    if sub == "demerge":
        return "demerge/trace-%s/%s" % (lvl, "no-option" if ev["key"] == "" else "-d")
    if sub == "split":
        return "split/trace-%s/%s%s" % (lvl, ev.get("kind", "?"), "/indels" if ev.get("indel") else "")
    return sub


def brief(ev):
    """A trace event without its bulk (for the replay file and the samples)."""
    out = {}
    for k, v in ev.items():
        if isinstance(v, list) and len(v) > 6 and k in ("main", "part", "out", "recs"):
            out[k] = v[:3] + ["... %d more" % (len(v) - 3)]
        elif isinstance(v, str) and len(v) > 400:
            out[k] = v[:200] + "...(%d chars)" % len(v)
        else:
            out[k] = v
    return out


def judge_trace(ctx, trace, vac, stats):
    events, rejects = ctx.trace_validate("RelTrace", "RelTrace.cfg", trace, timeout=2400, heap="8g")
    bad = {r["l"]: r["why"] for r in rejects}
    for i, ev in enumerate(events, 1):
        cls = event_class(ev)
        stats[cls] = stats.get(cls, 0) + 1
        if i in bad and bad[i].startswith("skip"):
            stats[bad[i]] = stats.get(bad[i], 0) + 1
        elif i in bad:
            why = bad[i]
            detail = "%s (%s), seed %s: rejected by RelTrace: %s" % (ev.get("how", "")[:200], ev.get("level"), ev.get("seed"), why)
            if why == "failed":
                detail += " :: " + str(ev.get("status"))[:300]
            ctx.violation("X01.%s.%s" % (ev["sub"], why), cls, detail, brief(ev))
        else:
            key = "accepted/" + cls
            stats[key] = stats.get(key, 0) + 1
            if ev["sub"] == "join" and len(ev["out"]) > len(ev["main"]):
                stats["join/amplified"] = stats.get("join/amplified", 0) + 1
            if ev["sub"] == "demerge" and len(ev["out"]) > len(ev["recs"]):
                stats["demerge/amplified"] = stats.get("demerge/amplified", 0) + 1
            if ev["sub"] == "split" and len(ev["out"]) >= 2:
                stats["split/cut"] = stats.get("split/cut", 0) + 1
    return events


def replay_one(ctx, blob):
    case = blob["case"]
    bindir = os.path.join(ctx.scratch, "bin")
    if "seed" in case and "how" in case:          # a trace event: run the same seeded scenario again, validate it
        tr = ctx.path("trace.ndjson")
        args = ["record", "X01", "--out", tr, "--n", 1, "--opt", "sub=" + case["sub"], "--opt", "bindir=" + bindir,
                "--opt", "jobseed=%d" % case["seed"], "--opt", "joblevel=" + ("lib" if case.get("level") == "lib" else "cmd")]
        if case.get("level") == "cmd-big":
            args += ["--opt", "jobbig=1"]
        if str(case.get("kind", "")).startswith("long"):
            args += ["--opt", "joblong=1"]
        if case.get("indel"):
            args += ["--opt", "indel=1"]
        ctx.harness(args, timeout=900)
        judge_trace(ctx, tr, Vacuity(), {})
        return ctx.finish()
    cases = ctx.path("cases.ndjson")
    vlib.write_ndjson(cases, [case])
    res = ctx.path("res.ndjson")
    ctx.harness(["replay", "X01", "--cases", cases, "--out", res, "--opt", "bindir=" + bindir, "--opt", "cmdevery=1"])
    ctx.add_results(res)
    return ctx.finish()


def main(ctx):
    thorough = ctx.tier == "thorough"
    vac = Vacuity()
    ctx.build_cmds(BINS)
    bindir = os.path.join(ctx.scratch, "bin")
    if ctx.replay:
        return replay_one(ctx, json.load(open(ctx.replay)))
    tier = "thorough" if thorough else "quick"

    # M ---------------------------------------------------------------------------------------
    allcases = ctx.path("cases.ndjson")
    counts = {}
    with open(allcases, "w") as out:
        for module, junk in (("RelJoinMC", 0), ("RelDemergeMC", 0), ("SplitCutMC", 0)):
            cf = ctx.path("model_%s.ndjson" % module)
            res = ctx.tlc_model(module, "%s_%s.cfg" % (module, tier), env={"VERIF_CASES": cf}, timeout=2400,
                                heap="8g" if thorough else None)
            # (instantiating Uniq.tla makes TLC evaluate Uniq's own constant Export once: that line has no "sub")
            got = [c for c in vlib.read_cases(cf) if "sub" in c]
            expected = res.distinct
            if module == "SplitCutMC":          # the empty read of each configuration is not exported
                expected -= len({c["class"].split("/")[0] for c in got})
            if len(got) != expected:
                raise vlib.Inconclusive("%s: %d exported cases for %d exporting states (torn export?)" % (module, len(got), expected))
            counts[module] = len(got)
            for c in got:
                out.write(json.dumps(c, separators=(",", ":")) + "\n")
            if got:
                ctx.samples.append({"model_case": got[len(got) // 2]})
    ctx.extra["exported_cases"] = counts
    for m, n in counts.items():
        vac.expect("exported cases of " + m, n)

    # R ---------------------------------------------------------------------------------------
    res = ctx.path("res.ndjson")
    ctx.harness(["replay", "X01", "--cases", allcases, "--out", res, "--opt", "bindir=" + bindir,
                 "--opt", "cmdevery=%d" % (8 if thorough else 25), "--opt", "dfltevery=%d" % (4 if thorough else 1)], timeout=3000)
    summ = ctx.add_results(res)
    for need in ("join/lib/a/partners=2", "join/lib/a_b/partners=1", "join/lib/ab/partners=1", "join/lib/id_a/partners=1",
                 "join/cmd/dflt/partners=2", "join/cmd/a/partners=1", "join/cmd/ab/partners=1", "join/lib/z/partners=0",
                 "demerge/lib/-d/all-carry-it", "demerge/lib/-d/mixed", "demerge/lib/-d/none-carries-it",
                 "demerge/cmd/no-option/no-option", "demerge/cmd/-d/all-carry-it",
                 "split/lib/pal/equal-starts", "split/lib/rcpair/equal-starts", "split/lib/two/overlapping", "split/lib/one/covered",
                 "split/lib/err/clean", "split/cmd/two/clean", "split/cmd/palerr/overlapping", "split/lib/pool/clean"):
        vac.expect("replay class " + need, ctx.classes.get(need, 0))

    # T ---------------------------------------------------------------------------------------
    trace = ctx.path("trace.ndjson")
    parts = []
    plan = [("join", 300 if thorough else 18, ["--opt", "big=%d" % (3 if thorough else 0)]),
            ("demerge", 250 if thorough else 14, ["--opt", "big=%d" % (3 if thorough else 0)]),
            ("split", 500 if thorough else 20, ["--opt", "long=%d" % (12 if thorough else 2)]),
            ("split", 150 if thorough else 5, ["--opt", "indel=1"])]
    for k, (sub, n, extra) in enumerate(plan):
        p = ctx.path("trace_%d.ndjson" % k)
        ctx.harness(["record", "X01", "--out", p, "--n", n, "--opt", "sub=" + sub, "--opt", "bindir=" + bindir] + extra, timeout=1800)
        parts.append(p)
    with open(trace, "w") as out:
        for p in parts:
            out.write(open(p).read())
    stats = {}
    events = judge_trace(ctx, trace, vac, stats)
    ctx.extra["trace_classes"] = stats
    for sub in ("join", "demerge", "split"):
        first = next((e for e in events if e["sub"] == sub), None)
        if first:
            ctx.samples.append({"trace_event": brief(first)})
    for need in ("accepted/join/trace-cmd/plain", "accepted/join/trace-lib/plain", "join/amplified",
                 "accepted/demerge/trace-cmd/-d", "accepted/demerge/trace-lib/-d", "accepted/demerge/trace-cmd/no-option", "demerge/amplified",
                 "accepted/split/trace-cmd/planted", "accepted/split/trace-lib/planted", "split/cut", "split/trace-lib/long-early",
                 "split/trace-cmd/planted/indels", "split/trace-lib/planted/indels"):
        vac.expect("trace class " + need, stats.get(need, 0))
    if thorough:
        for need in ("join/trace-cmd-big/plain", "demerge/trace-cmd-big/-d"):
            vac.expect("trace class " + need, sum(v for k, v in stats.items() if k.startswith(need.rsplit("/", 1)[0])))
    vac.settle(ctx)
    ctx.assumptions += [
        "attribute values are integers, strings and booleans (plus integer-valued maps for merged_*); the textual rendering compared by obijoin is that of these kinds",
        "reads and patterns: a c g t reads, pure IUPAC patterns without '!' / '#' (what an obisplit configuration holds); occurrences = Apat.tla (C10) mismatch matching; with --allows-indels only the clauses that do not depend on the matcher's choice of spans are judged",
        "command level: inputs whose FASTQ quality lines never start with '@' or '+' and output streams that do not mix records with and without quality scores (reader / writer behaviour there belongs to C01 / C04)",
        "an empty merged_<key> map is outside the demerge statement (extra/X01.md)",
    ]
    return ctx.finish(rule="model cases: one per (options, main record, partner table) / (-d key, stream) / (configuration, read); "
                           "trace events: whole command or worker runs (join, demerge), one read per event (split)")

"""C09 - LCS and one-difference kernels are exact within their error bound.

M: TLC on spec/L0_kernel/LCSCheck.tla (reference definitions LCS.tla, D1.tla; implementation-shaped
   model BandedLCS.tla): the row-fold DP equals "max over all alignments" on tiny pairs, D1Ref is
   edit distance 0/1/>=2 and is refined by the prefix/suffix-scan model, the banded anti-diagonal
   model refines the bound contract for every pair/bound whatever the scratch buffer held.  Exports,
   per ordered pair, the set of answers the real kernels may give for every bound.
R: every exported pair x bound x {fresh, reused, poisoned buffer} x both argument orders on the real
   FastLCSScore / FastLCSEGFScore, and D1Or0 (verdict + reported edit in the exported set of edits).
T: seeded random pairs (IUPAC codes, planted edits, length differences, up to maxlen bases);
   LCSTrace.tla re-evaluates the reference on every logged call.
"""
import collections
import json
import vlib

NEED_CLASSES = (
    "lcs/acgt/within/fresh", "lcs/acgt/within/reused", "lcs/acgt/within/poisoned",
    "lcs/acgt/beyond/fresh", "lcs/acgt/beyond/reused", "lcs/iupac/within/fresh", "lcs/iupac/beyond/fresh",
    "egf/acgt/within/fresh", "egf/acgt/beyond/reused", "egf/iupac/within/poisoned",
    "lcs/symmetry", "egf/symmetry",
    "d1/acgt/expect=0", "d1/acgt/expect=1", "d1/acgt/expect=-1", "d1/iupac/expect=1", "d1/ambiguous_position",
)


def alpha_class(ev):
    return "acgt" if all(c in "acgt" for c in ev["a"] + ev["b"]) else "iupac"


def validate_trace(ctx, trace, timeout):
    events, rejects = ctx.trace_validate("LCSTrace", "LCSTrace.cfg", trace, timeout=timeout)
    for r in rejects:
        ev = events[r["l"] - 1]
        a, b = "".join(ev["a"]), "".join(ev["b"])
        if ev["k"] == "d1":
            got = "D1Or0(a,b)=(%d,%d,%r,%r) D1Or0(b,a)=(%d,%d,%r,%r)" % (
                ev["r"][0], ev["r"][1], ev["x"], ev["y"], ev["rr"][0], ev["rr"][1], ev["rx"], ev["ry"])
        else:
            fn = "FastLCSScore" if ev["k"] == "lcs" else "FastLCSEGFScore"
            got = "%s(a,b,%d)=%s %s(b,a,%d)=%s buffer=%s" % (fn, ev["e"], ev["r"], fn, ev["e"], ev["rr"], ev["buf"])
        ctx.violation("C09." + r["why"], "%s/%s/trace" % (ev["k"], alpha_class(ev)),
                      "rejected by LCSTrace (%s): a=%s b=%s %s" % (r["why"], a, b, got), ev)
    return events, rejects


def main(ctx):
    thorough = ctx.tier == "thorough"
    if ctx.replay:
        blob = json.load(open(ctx.replay))
        case = blob["case"]
        if "k" in case:                       # a recorded kernel call: TLC judges it again ...
            trace = ctx.path("trace.ndjson")
            ev = dict(case)
            # ... after the real code has been called again on the same arguments
            one = ctx.path("one.ndjson")
            vlib.write_ndjson(one, [ev])
            ctx.harness(["record", "C09", "--out", trace, "--n", 1, "--opt", "replay=" + one])
            validate_trace(ctx, trace, 600)
        else:
            cases = ctx.path("cases.ndjson")
            vlib.write_ndjson(cases, [case])
            res = ctx.path("res.ndjson")
            ctx.harness(["replay", "C09", "--cases", cases, "--out", res])
            ctx.add_results(res)
        return ctx.finish()

    # M ---------------------------------------------------------------------------------------
    tier = "thorough" if thorough else "quick"
    cases = ctx.path("cases.ndjson")
    r1 = ctx.tlc_model("LCSCheck", "LCSCheck_%s.cfg" % tier, env={"VERIF_CASES": cases}, timeout=1500)
    casesb = ctx.path("cases_banded.ndjson")
    r2 = ctx.tlc_model("LCSCheck", "LCSCheck_banded_%s.cfg" % tier, env={"VERIF_CASES": casesb}, timeout=1500)
    try:
        c1 = vlib.read_cases(cases)
        c2 = vlib.read_cases(casesb)
    except ValueError as ex:
        raise vlib.Inconclusive("torn line in the exported cases: %s" % ex)
    # one exporting state per pair (each pair has a 'todo' and a 'done' state)
    if 2 * len(c1) != r1.distinct or 2 * len(c2) != r2.distinct:
        raise vlib.Inconclusive("exported %d+%d cases for %d+%d states" % (len(c1), len(c2), r1.distinct, r2.distinct))
    ctx.expect_vacuity("exported pairs", len(c1))
    ctx.expect_vacuity("exported pairs with banded-model answers", len(c2))
    ctx.extra["exported_pairs"] = len(c1) + len(c2)
    # scenario classes taken from the implementation-shaped model: beyond the bound it answers either
    # 'not found' or a pair that is itself beyond the bound - both must have been exported
    nf = sum(1 for c in c2 for k in range(len(c["bounds"])) if c["lcs"][k][2] >= 0 and c["impl"][k][0] < 0)
    bp = sum(1 for c in c2 for k in range(len(c["bounds"])) if c["lcs"][k][2] >= 0 and c["impl"][k][0] >= 0)
    ctx.expect_vacuity("model cases beyond the bound answered 'not found'", nf)
    ctx.expect_vacuity("model cases beyond the bound answered by a beyond-bound pair", bp)
    ctx.extra["model_beyond_bound_notfound"] = nf
    ctx.extra["model_beyond_bound_pair"] = bp
    ctx.extra["bounds"] = c1[0]["bounds"]
    # R ---------------------------------------------------------------------------------------
    for path, cs in ((cases, c1), (casesb, c2)):
        res = path + ".res"
        ctx.harness(["replay", "C09", "--cases", path, "--out", res], timeout=1500)
        ctx.add_results(res)
    for need in NEED_CLASSES:
        ctx.expect_vacuity("class " + need, ctx.classes.get(need, 0))
    # diagnostic only (DESIGN 3.5): answers of the real code that equal / differ from the implementation-shaped model
    ctx.expect_vacuity("comparisons with the banded model", ctx.classes.get("diag/banded_model_equal", 0)
                       + ctx.classes.get("diag/banded_model_differs", 0))
    ctx.extra["banded_model_differs_from_code"] = ctx.classes.get("diag/banded_model_differs", 0)
    # T ---------------------------------------------------------------------------------------
    trace = ctx.path("trace.ndjson")
    n, maxlen = (10000, 500) if thorough else (1500, 150)
    ctx.harness(["record", "C09", "--out", trace, "--n", n, "--opt", "maxlen=%d" % maxlen], timeout=900)
    events, rejects = validate_trace(ctx, trace, 1500)
    fam = collections.Counter("%s/%s" % (e["k"], e["sc"]) for e in events)
    for need in ("lcs/edits", "lcs/lendiff", "lcs/unrelated", "lcs/piece", "egf/edits", "egf/piece",
                 "d1/d0", "d1/d1", "d1/d1end", "d1/d2"):
        ctx.expect_vacuity("trace family " + need, fam.get(need, 0))
    ctx.expect_vacuity("trace events with IUPAC codes", sum(1 for e in events if alpha_class(e) == "iupac"))
    ctx.expect_vacuity("trace events answering 'not found'", sum(1 for e in events if e["k"] != "d1" and e["r"][0] < 0))
    ctx.extra["trace_families"] = dict(fam)
    ctx.extra["trace_max_len"] = max(max(len(e["a"]), len(e["b"])) for e in events)
    ctx.extra["trace_dp_cells"] = sum(len(e["a"]) * len(e["b"]) for e in events if e["k"] != "d1")
    ev = events[0]
    ctx.samples.insert(0, {"trace_event": {k: ("".join(v) if k in ("a", "b") else v) for k, v in ev.items()}})
    ctx.assumptions += [
        "sequences are lower-case IUPAC nucleotide symbols (acgt u ryswkm bdhv n); other bytes are outside the specification",
        "FastLCSEGFScore: the overhang of the longer sequence is free; on equal lengths either argument may play the longer "
        "part (set-valued), its third return value ('end') is logged but not judged",
        "path lengths stay below the 16-bit field of the packed cell (sequences of a few hundred bases)",
    ]
    ctx.extra["exhaustive"] = False
    return ctx.finish(rule="M/R: every ordered pair of the configured alphabets/lengths x every bound x 3 buffer states x both "
                           "argument orders (replayed_model_cases counts kernel answers compared); T: one event = one kernel "
                           "call pair (a,b)/(b,a) on a seeded random scenario")

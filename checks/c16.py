"""C16 - obigrep, obiannotate, obidistribute (and obimultiplex -u) act on each record as their options say.

M: TLC on spec/L3_command/OptCases.tla: enumerates command lines (every option alone, every expressible
   pair, every repeatable option with all its occurrences, Seed-driven larger subsets; x -v; x the six
   paired modes) on the curated data set of OptData.tla, checks the laws of Grep/Annotate/Route
   (conjunction and monotony, -v = complement, paired truth table, partition laws, frame conditions,
   every occurrence applied) and exports, for every command line, the content of every output file.
R: (a) every exported command line becomes an argv of the REAL binaries, run on the FASTA/FASTQ rendering
   of the data set under --max-cpu {2,8} x --batch-size {1,3}; stdout, --save-discarded, _R1/_R2 files and
   the obidistribute file set are decoded and compared with the export;
   (b) the Go harness replays the same cases at library level (real option parser ->
   CLIFilterSequence / CLIAnnotationPipeline / Distribute in one child process per command line).
T: the harness draws random command lines (random thresholds, more occurrences) and random records far
   outside the curated set (lengths to 300, random attributes), runs the library entry points (4-15
   records per event) and the real binaries (files of 60-400 records) on them and logs (options, records,
   what came out); OptTrace.tla re-evaluates the specification on every event.
"""
import json
import os
import shutil

import vlib

TOOLS = ["obigrep", "obiannotate", "obidistribute", "obimultiplex"]

# ------------------------------------------------------------------------------ encoding / decoding


def untag(v):
    """tagged value of the specification -> JSON value written in the input file"""
    if v.startswith("i:"):
        return int(v[2:])
    if v.startswith("s:"):
        return v[2:]
    raise ValueError(v)


def tag(v):
    """JSON value read from an output file -> tagged value"""
    if isinstance(v, bool):
        return "b:" + ("true" if v else "false")
    if isinstance(v, int):
        return "i:%d" % v
    if isinstance(v, float):
        return "i:%d" % int(v) if v == int(v) else "f:%r" % v
    if isinstance(v, str):
        return "s:" + v
    return "o:" + json.dumps(v, sort_keys=True)


def attrs_of(rec):
    a = rec.get("attrs")
    return dict(a) if isinstance(a, dict) else {}     # TLC prints the empty function as []


def render(recs, fastq):
    out = []
    for r in recs:
        a = attrs_of(r)
        d = a.pop("definition", None)
        head = r["id"]
        if a:
            head += " " + json.dumps({k: untag(v) for k, v in a.items()}, separators=(",", ":"))
        if d is not None:
            head += " " + untag(d)
        if fastq:
            out.append("@%s\n%s\n+\n%s\n" % (head, r["seq"], r["qual"]))
        else:
            out.append(">%s\n%s\n" % (head, r["seq"]))
    return "".join(out)


def parse_header(h):
    parts = h.split(None, 1)
    rid = parts[0] if parts else ""
    rest = parts[1].strip() if len(parts) > 1 else ""
    attrs = {}
    if rest.startswith("{"):
        obj, end = json.JSONDecoder().raw_decode(rest)
        attrs = {k: tag(v) for k, v in obj.items()}
        rest = rest[end:].strip()
    if rest:
        attrs["definition"] = "s:" + rest
    return rid, attrs


def parse_seqfile(text):
    """FASTA or FASTQ text -> list of records in the vocabulary of the specification."""
    recs = []
    lines = text.split("\n")
    i = 0
    while i < len(lines):
        l = lines[i]
        if l.startswith(">"):
            rid, attrs = parse_header(l[1:])
            i += 1
            s = []
            while i < len(lines) and not lines[i].startswith(">"):
                s.append(lines[i].strip())
                i += 1
            recs.append({"id": rid, "seq": "".join(s), "qual": None, "attrs": attrs})
        elif l.startswith("@"):
            rid, attrs = parse_header(l[1:])
            recs.append({"id": rid, "seq": lines[i + 1].strip(), "qual": lines[i + 3].strip(), "attrs": attrs})
            i += 4
        elif l.strip() == "":
            i += 1
        else:
            raise ValueError("unparsable output line %r" % l[:80])
    return recs


def same_record(got, exp, fastq):
    if got["id"] != exp["id"] or got["seq"] != exp["seq"] or got["attrs"] != attrs_of(exp):
        return False
    if fastq and got["qual"] != exp["qual"]:
        return False
    return True


def short(rec):
    return {"id": rec["id"], "seq": rec["seq"], "qual": rec.get("qual"), "attrs": rec["attrs"] if isinstance(rec["attrs"], dict) else {}}


# ------------------------------------------------------------------------------------ command lines

GREP_FLAG = {"l": ("-l", "--min-length"), "L": ("-L", "--max-length"), "c": ("-c", "--min-count"),
             "C": ("-C", "--max-count"), "s": ("-s", "--sequence"), "D": ("-D", "--definition"),
             "I": ("-I", "--identifier"), "a": ("-a", "--attribute"), "A": ("-A", "--has-attribute"),
             "p": ("-p", "--predicate"), "idlist": ("--id-list", "--id-list")}


def inst_argv(o, rng, datadir):
    f = o["fam"]
    pick = lambda names: names[rng.randrange(len(names))]
    if f in ("l", "L", "c", "C"):
        return [pick(GREP_FLAG[f]), str(o["n"])]
    if f in ("s", "D", "I", "p"):
        return [pick(GREP_FLAG[f]), o["re"]]
    if f == "a":
        return [pick(GREP_FLAG[f]), "%s=%s" % (o["key"], o["re"])]
    if f == "A":
        return [pick(GREP_FLAG[f]), o["key"]]
    if f == "idlist":
        return ["--id-list", os.path.join(datadir, o["re"] + ".txt")]
    if f == "clear":
        return ["--clear"]
    if f == "setid":
        return ["--set-identifier", o["re"]]
    if f == "del":
        return ["--delete-tag", o["key"]]
    if f == "keep":
        return [pick(("-k", "--keep")), o["key"]]
    if f == "ren":
        return [pick(("-R", "--rename-tag")), "%s=%s" % (o["key"], o["re"])]
    if f == "length":
        return ["--length"]
    if f == "set":
        return [pick(("-S", "--set-tag")), "%s=%s" % (o["key"], o["re"])]
    if f == "cut":
        return ["--cut=%d:%d" % (o["n"], o["m"])]
    raise ValueError("unknown option family " + f)


def opts_argv(opts, rng, datadir):
    groups = [inst_argv(o, rng, datadir) for o in opts]
    rng.shuffle(groups)
    return [x for g in groups for x in g]


def fams_of(case):
    fams = sorted(set(o["fam"] for o in case["opts"]))
    return "none" if not fams else "+".join(fams) if len(fams) <= 2 else "multi"


def case_class(case):
    """scenario class of a case: the option families involved (more than two: "multi"), -v, paired mode"""
    t = case["tool"]
    if t == "grep":
        return "grep/%s%s%s" % (fams_of(case), "/v" if case["v"] else "", "" if case["mode"] == "none" else "/" + case["mode"])
    if t == "annot":
        return "annot/" + fams_of(case)
    if t == "dist":
        D = case["D"]
        return "dist/" + ("c" + ("+d" if D["d"] else "") if D["c"] else ("n" if D["n"] else "h"))
    return t


class Runner:
    """Turns exported cases into jobs on the real binaries and compares what comes out."""

    def __init__(self, ctx, data):
        self.ctx = ctx
        self.data = data
        self.bindir = ctx.build_cmds(TOOLS)
        self.dir = ctx.path("data")
        os.makedirs(self.dir, exist_ok=True)
        for name, recs in (("fwd", data["fwd"]), ("rev", data["rev"])):
            for fq in (False, True):
                with open(os.path.join(self.dir, name + (".fastq" if fq else ".fasta")), "w") as f:
                    f.write(render(recs, fq))
        for nlist, (l, ids) in enumerate(sorted(data["lists"].items())):
            with open(os.path.join(self.dir, l + ".txt"), "w") as f:    # one identifier per line, blanks around some
                text = "".join(("  %s\t\n" if k % 2 else "%s\n") % i for k, i in enumerate(sorted(ids)))
                # a list written by printf / echo -n / some editors does not end with a new line
                f.write(text[:-1] if nlist % 2 == 0 else text)
        self.byid = {r["id"]: r for r in data["fwd"] + data["rev"]}
        self.mate = {}
        for a, b in zip(data["fwd"], data["rev"]):
            self.mate[a["id"]] = b["id"]
        self.write_mux()
        self.njob = 0
        self.jobs = []
        self.sporadic = []

    # obimultiplex scenario: a sample sheet and reads of the three classes of OptData!MuxReads
    def write_mux(self):
        rc = lambda s: s.translate(str.maketrans("acgt", "tgca"))[::-1]
        fwd, rev = "ttagataccccactatgc", "tagaacaggctcctctag"
        ins = "ttagccctaaacacaagtaattaatataacaaaattattcgcc"
        mk = {"good": lambda t: "cc" + t + fwd + ins + rc(rev) + rc(t) + "gg",
              "notag": lambda t: "cc" + "acacaca" + fwd + ins + rc(rev) + rc("acacaca") + "gg",
              "noprimer": lambda t: "acgtacgtagctagctagctagctagctagtcgatcgatcgatgctagctagctagctagctagc"}
        tags = ["aattaac", "gaagtag"]
        for k, reads in enumerate(self.data["mux"]):
            with open(os.path.join(self.dir, "mux%d.fasta" % (k + 1)), "w") as f:
                for i, cl in enumerate(reads):
                    f.write(">read%02d {\"n\":%d}\n%s\n" % (i + 1, i + 1, mk[cl](tags[i % 2])))
        with open(os.path.join(self.dir, "ngs.txt"), "w") as f:
            f.write("exp  sampleA  aattaac  TTAGATACCCCACTATGC  TAGAACAGGCTCCTCTAG  F  @\n"
                    "exp  sampleB  gaagtag  TTAGATACCCCACTATGC  TAGAACAGGCTCCTCTAG  F  @\n")

    def add(self, case, cpu, bs, fastq, save, seed, tag=""):
        import random
        rng = random.Random(seed)
        self.njob += 1
        d = self.ctx.path("j%06d" % self.njob)
        os.makedirs(d)
        ext = ".fastq" if fastq else ".fasta"
        t = case["tool"]
        par = ["--max-cpu", str(cpu), "--batch-size", str(bs)]
        fwd = os.path.join(self.dir, "fwd" + ext)
        if t == "grep":
            argv = [os.path.join(self.bindir, "obigrep")] + par + opts_argv(case["opts"], rng, self.dir)
            if case["v"]:
                argv.append(rng.choice(["-v", "--inverse-match"]))
            if case["mode"] != "none":
                argv += ["--paired-with", os.path.join(self.dir, "rev" + ext), "--paired-mode", case["mode"],
                         "-o", "kept" + ext]
            if save:
                argv += ["--save-discarded", "disc" + ext]
            argv.append(fwd)
        elif t == "annot":
            argv = [os.path.join(self.bindir, "obiannotate")] + par + opts_argv(case["opts"], rng, self.dir) + [fwd]
        elif t == "dist":
            D = case["D"]
            argv = [os.path.join(self.bindir, "obidistribute")] + par + ["-p", D["pat"][0] + "%s" + D["pat"][1]]
            if D["c"]:
                argv += [rng.choice(["-c", "--classifier"]), D["c"]]
                if D["d"]:
                    argv += [rng.choice(["-d", "--directory"]), D["d"]]
                if D["na"] != "NA":
                    argv += ["--na-value", D["na"]]
            elif D["n"]:
                argv += [rng.choice(["-n", "--batches"]), str(D["n"])]
            else:
                argv += [rng.choice(["-H", "--hash"]), str(D["h"])]
            argv.append(fwd)
        elif t == "mux":
            argv = [os.path.join(self.bindir, "obimultiplex")] + par + ["-t", os.path.join(self.dir, "ngs.txt"),
                                                                       "-u", "unid.fasta", os.path.join(self.dir, "mux%d.fasta" % case["set"])]
        else:
            raise ValueError(t)
        self.jobs.append({"argv": argv, "cwd": d, "case": case, "fastq": fastq, "save": save, "tag": tag,
                          "cfg": "cpu=%d bs=%d %s%s" % (cpu, bs, "fastq" if fastq else "fasta", " save" if save else "")})

    def run(self):
        """Runs the jobs.  A command that crashes or hangs is run again (twice): a failure that does not repeat is a
        sporadic crash of the process (counted in the evidence, e.g. the data race met in the JSON header decoder),
        not a statement about the options; a failure that repeats is reported."""
        res = self.ctx.run_many(self.jobs, timeout=120)
        first = {}
        for attempt in (1, 2):
            bad = [i for i, r in enumerate(res) if r["timeout"] or r["rc"] != 0]
            if not bad:
                break
            for i in bad:
                first.setdefault(i, {"argv": " ".join(os.path.basename(a) for a in self.jobs[i]["argv"]),
                                     "rc": res[i]["rc"], "stderr": res[i]["err"][-400:]})
                shutil.rmtree(self.jobs[i]["cwd"], ignore_errors=True)
                os.makedirs(self.jobs[i]["cwd"])
            again = self.ctx.run_many([self.jobs[i] for i in bad], timeout=120)
            for i, r in zip(bad, again):
                res[i] = r
        self.sporadic += [v for i, v in first.items() if not res[i]["timeout"] and res[i]["rc"] == 0]
        for j, r in zip(self.jobs, res):
            self.judge(j, r)
            shutil.rmtree(j["cwd"], ignore_errors=True)
        n = len(self.jobs)
        self.jobs = []
        return n

    # -------------------------------------------------------------------------------- comparison
    def fail(self, j, what, detail):
        case = dict(j["case"])
        shown = [os.path.basename(a) if a.startswith(self.ctx.scratch) else a for a in j["argv"]]
        case["_argv"] = shown
        case["_cfg"] = j["cfg"]
        self.ctx.violation("C16." + what, case_class(j["case"]),
                           "%s  [%s] :: %s" % (" ".join(shown), j["cfg"], detail), case)

    def read(self, j, name):
        p = os.path.join(j["cwd"], name)
        if not os.path.exists(p):
            return None
        return parse_seqfile(open(p).read())

    def judge(self, j, r):
        case, t = j["case"], j["case"]["tool"]
        cls = case_class(case)
        ok_before = len(self.ctx.violations) + len(self.ctx.known_hits)
        if r["timeout"]:
            self.fail(j, t + ".hang", "no exit within the time limit (3 attempts)")
            return
        if r["rc"] != 0:
            self.fail(j, t + ".exit", "exit status %d (3 attempts): %s" % (r["rc"], r["err"][-300:]))
            return
        try:
            stdout = parse_seqfile(r["out"].decode("utf8", "replace"))
            getattr(self, "judge_" + t)(j, stdout)
        except (ValueError, IndexError, KeyError) as ex:
            self.fail(j, t + ".output_unreadable", repr(ex))
        if len(self.ctx.violations) + len(self.ctx.known_hits) == ok_before:
            self.ctx.classes[cls] = self.ctx.classes.get(cls, 0) + 1
        fam = "bin/" + t + ("/paired" if case.get("mode", "none") != "none" else "") + ("/save" if j["save"] else "") + \
            ("/" + j["tag"] if j["tag"] else "")
        self.ctx.classes[fam] = self.ctx.classes.get(fam, 0) + 1
        self.ctx.replayed += 1

    def same_ids(self, j, what, got, exp):
        g, e = sorted(x["id"] for x in got), sorted(exp)
        if g != e:
            self.fail(j, what, "got %s ; the options say %s (unexpected: %s ; missing: %s)" %
                      (g, e, sorted(set(g) - set(e)), sorted(set(e) - set(g))))
            return False
        return True

    def unchanged(self, j, what, got):
        for x in got:
            if x["id"] in self.byid and not same_record(x, self.byid[x["id"]], j["fastq"]):
                self.fail(j, what, "record written %s differs from the record read %s" % (short(x), short(self.byid[x["id"]])))
                return

    def judge_grep(self, j, stdout):
        case, fq = j["case"], j["fastq"]
        ext = ".fastq" if fq else ".fasta"
        paired = case["mode"] != "none"
        if paired:
            k1, k2 = self.read(j, "kept_R1" + ext), self.read(j, "kept_R2" + ext)
            if k1 is None or k2 is None:
                # nothing selected: the writers may not create the files
                k1, k2 = k1 or [], k2 or []
            streams = [("grep.kept", k1, case["kept"]), ("grep.kept_mates", k2, case["keptm"])]
            pairs = [("kept", k1, k2)]
            if j["save"]:
                d1, d2 = self.read(j, "disc_R1" + ext) or [], self.read(j, "disc_R2" + ext) or []
                streams += [("grep.discarded", d1, case["disc"]), ("grep.discarded_mates", d2, case["discm"])]
                pairs.append(("discarded", d1, d2))
        else:
            streams = [("grep.kept", stdout, case["kept"])]
            pairs = []
            if j["save"]:
                streams.append(("grep.discarded", self.read(j, "disc" + ext) or [], case["disc"]))
        for what, got, exp in streams:
            if not self.same_ids(j, what, got, exp):
                return
            self.unchanged(j, "grep.record_changed", got)
        for name, a, b in pairs:
            if [self.mate.get(x["id"]) for x in a] != [y["id"] for y in b]:
                self.fail(j, "grep.pair_rank", "%s files: forward %s reverse %s are not mates rank by rank" %
                          (name, [x["id"] for x in a], [y["id"] for y in b]))

    def judge_annot(self, j, stdout):
        exp = j["case"]["out"]
        if len(stdout) != len(exp) or sorted(x["id"] for x in stdout) != sorted(e["id"] for e in exp):
            self.fail(j, "annot.records", "identifiers written %s ; the options say %s" %
                      ([x["id"] for x in stdout], [e["id"] for e in exp]))
            return
        byid = {e["id"]: e for e in exp}
        for x in stdout:
            e = byid[x["id"]]
            if not same_record(x, e, j["fastq"]):
                what = "annot.sequence" if (x["seq"] != e["seq"] or (j["fastq"] and x["qual"] != e["qual"])) else "annot.attributes"
                self.fail(j, what, "record written %s ; the options say %s" % (short(x), short(e)))
                return

    def judge_dist(self, j, stdout):
        exp = j["case"]["files"]
        got = {}
        for root, _, files in os.walk(j["cwd"]):
            for f in files:
                p = os.path.join(root, f)
                got[os.path.relpath(p, j["cwd"])] = parse_seqfile(open(p).read())
        gi = {f: sorted(x["id"] for x in v) for f, v in got.items()}
        ei = {f: sorted(v) for f, v in exp.items()}
        if gi != ei:
            self.fail(j, "dist.files", "file set %s ; the options say %s" % (gi, ei))
            return
        for v in got.values():
            self.unchanged(j, "dist.record_changed", v)

    def judge_mux(self, j, stdout):
        case = j["case"]
        unid = self.read(j, "unid.fasta") or []
        n_of = lambda recs: sorted(int(x["attrs"].get("n", "i:-1")[2:]) for x in recs)
        if n_of(stdout) != sorted(case["nkept"]) or n_of(unid) != sorted(case["ndisc"]):
            self.fail(j, "mux.partition", "identified reads %s unidentified %s ; expected %s and %s" %
                      (n_of(stdout), n_of(unid), case["nkept"], case["ndisc"]))


CONFIGS = [(cpu, bs) for cpu in (2, 8) for bs in (1, 3)]


def schedule(ctx, runner, cases, thorough):
    """quick: every case once, under a seeded configuration (the four (cpu, batch) configurations, both formats and
    both obigrep code paths are covered evenly); thorough: every case under the four (cpu, batch) configurations."""
    k = ctx.seed
    for case in cases:
        t = case["tool"]
        if t == "data":
            continue
        if thorough:
            for cpu, bs in CONFIGS:
                k += 1
                fq = (k // 4) % 2 == 1 and t not in ("dist", "mux")
                save = t == "grep" and (k // 8) % 2 == 1
                runner.add(case, cpu, bs, fq, save, k)
        else:
            reps = 4 if t in ("dist", "mux") else 1
            for _ in range(reps):
                k += 1
                cpu, bs = CONFIGS[k % 4]
                fq = (k // 4) % 2 == 1 and t not in ("dist", "mux")
                save = t == "grep" and (k // 8) % 2 == 1
                runner.add(case, cpu, bs, fq, save, k)


def schedule_last_batch(ctx, runner, cases, thorough):
    """The side files (--save-discarded, obimultiplex -u) are written by a goroutine of their own.  When the side
    stream is shorter than one batch its only batch is delivered when the input ends: the class of runs where the
    command may finish before that file is written.  Such cases are repeated."""
    small = [c for c in cases if c["tool"] == "grep" and 1 <= len(c["disc"]) <= 2]
    small = vlib.sample(ctx.rng, [c for c in small if c["mode"] == "none"], 40) + \
        vlib.sample(ctx.rng, [c for c in small if c["mode"] != "none"], 20)
    mux = [c for c in cases if c["tool"] == "mux" and 1 <= len(c["ndisc"]) <= 2]
    reps = 12 if thorough else 5
    k = 1000000 + ctx.seed
    for _ in range(reps):
        for c in small:
            k += 1
            runner.add(c, 2 if k % 2 else 8, 3, c["mode"] != "none" and k % 4 < 2, True, k, tag="lastbatch")
    for _ in range(reps * 40):
        for c in mux:
            k += 1
            runner.add(c, 2 if k % 2 else 8, 3, False, False, k, tag="lastbatch")
    # obiannotate discards records inside the batches: the writer may receive an emptied batch first (it chooses
    # FASTA or FASTQ from the first batch it sees).  Which batch arrives first is a race: such cases are repeated too.
    drops = [c for c in cases if c["tool"] == "annot" and 1 <= len(c["out"]) <= 3]
    for c in vlib.sample(ctx.rng, drops, 30):
        for _ in range(reps):
            k += 1
            runner.add(c, 2 if k % 2 else 8, 1 if k % 4 < 2 else 3, True, False, k, tag="emptied")


def main(ctx):
    thorough = ctx.tier == "thorough"
    if ctx.replay:
        return replay_one(ctx)

    # M ---------------------------------------------------------------------------------------
    cases_path = ctx.path("cases.ndjson")
    ctx.tlc_model("OptCases", "OptCases_thorough.cfg" if thorough else "OptCases_quick.cfg",
                  env={"VERIF_CASES": cases_path, "VERIF_SEED": ctx.seed}, timeout=1500)
    cases = vlib.read_cases(cases_path)
    if len(cases) * 2 != ctx.tlc_runs[-1]["distinct"]:
        raise vlib.Inconclusive("exported %d cases for %d states" % (len(cases), ctx.tlc_runs[-1]["distinct"]))
    data = [c for c in cases if c["tool"] == "data"]
    if len(data) != 1:
        raise vlib.Inconclusive("no data case exported")
    data = data[0]
    ctx.extra["exported_cases"] = len(cases) - 1
    for tool in ("grep", "annot", "dist", "mux"):
        ctx.expect_vacuity("exported %s cases" % tool, sum(1 for c in cases if c["tool"] == tool))

    # R (a): the real binaries ------------------------------------------------------------------
    runner = Runner(ctx, data)
    schedule(ctx, runner, cases, thorough)
    schedule_last_batch(ctx, runner, cases, thorough)
    n = runner.run()
    vlib.log("ran %d command lines on the real binaries" % n)
    ctx.extra["binary_runs"] = n
    # failures that did not repeat: every one is listed; the verdict comes from the run that completed
    failed_first = [x for x in runner.sporadic]
    ctx.extra["sporadic_process_failures"] = len(failed_first)
    if failed_first:
        ctx.extra["sporadic_process_failure_sample"] = failed_first[0]
    for need in ("bin/grep", "bin/grep/save", "bin/grep/paired", "bin/grep/paired/save", "bin/annot", "bin/dist", "bin/mux",
                 "bin/grep/save/lastbatch", "bin/grep/paired/save/lastbatch", "bin/mux/lastbatch", "bin/annot/emptied"):
        ctx.expect_vacuity("class " + need, ctx.classes.get(need, 0))
    ctx.samples.append({"case": {k: v for k, v in cases[len(cases) // 2].items() if k != "out"}})

    # R (b): the same cases at library level (one child process of the harness per command line) -----
    res = ctx.path("res.ndjson")
    libcases = cases
    if not thorough:    # quick: every annot / dist case, a seeded half of the obigrep cases
        grep = [c for c in cases if c["tool"] == "grep"]
        libcases = [c for c in cases if c["tool"] != "grep"] + vlib.sample(ctx.rng, grep, 1300)
    libpath = ctx.path("libcases.ndjson")
    vlib.write_ndjson(libpath, libcases)
    ctx.harness(["replay", "C16", "--cases", libpath, "--out", res], timeout=1500)
    summ = ctx.add_results(res)
    nlib = sum(1 for c in libcases if c["tool"] in ("grep", "annot", "dist"))
    if summ["checked"] + summ["failed"] != nlib:
        raise vlib.Inconclusive("library replay judged %d of %d cases" % (summ["checked"] + summ["failed"], nlib))
    for need in ("lib/grep", "lib/grep/paired", "lib/annot", "lib/dist"):
        ctx.expect_vacuity("class " + need, ctx.classes.get(need, 0) + summ["failed"])

    # T: random command lines x random records, judged by OptTrace ------------------------------------
    trace, tbin = ctx.path("trace.ndjson"), ctx.path("trace_bin.ndjson")
    ctx.harness(["record", "C16", "--out", trace, "--n", 4000 if thorough else 700], timeout=1500)
    ctx.harness(["record", "C16", "--out", tbin, "--n", 1200 if thorough else 120, "--opt", "bindir=" + runner.bindir,
                 "--opt", "big=%d" % (12 if thorough else 1)], timeout=1500)    # big: files of 5000 reads (> 1 MiB: several reader batches)
    with open(trace, "a") as f:
        f.write(open(tbin).read())
    judge_trace(ctx, trace)

    ctx.assumptions += [
        "regular expressions and expressions of the embedded language are atoms whose meaning is tabulated in OptData.tla",
        "--cut positions: 1-based inclusive, negative = len+p+1 (as implemented; undocumented option), window clamped to the sequence",
        "-v without any criterion, several values of a single-valued option, chained or colliding -R/-S are outside the quantification",
        "taxonomic options (-t -r -i --require-rank) belong to C14; --approx-pattern/--pattern (approximate matching) to C10",
        "a command that crashes or hangs is run again twice; a failure that does not repeat is counted (sporadic_process_failures), not judged",
    ]
    return ctx.finish(rule="case = one command line (set of option instances, -v, paired mode) on the curated data set, run on the real "
                           "binaries under seeded (--max-cpu, --batch-size, format, --save-discarded) configurations and at library level; "
                           "trace event = one random command line on 4-15 random records through the library entry points, or on a file of "
                           "60-400 random records through the real binary")


def trace_class(ev):
    if ev["tool"] == "dist":
        D = ev["D"]
        return "dist/" + ("c" + ("+d" if D["d"] else "") if D["c"] else ("n" if D["n"] else "h"))
    return case_class({"tool": ev["tool"], "opts": ev.get("opts", []), "v": ev.get("v", 0), "mode": ev.get("mode", "none")})


def judge_trace(ctx, trace):
    events, rejects = ctx.trace_validate("OptTrace", "OptTrace.cfg", trace, timeout=1500)
    tools = {}
    for ev in events:
        k = "trace/" + ev["level"] + "/" + ev["tool"] + ("/paired" if ev.get("mode", "none") != "none" else "")
        tools[k] = tools.get(k, 0) + 1
    for k, v in tools.items():
        ctx.classes[k] = ctx.classes.get(k, 0) + v
    for r in rejects:
        ev = events[r["l"] - 1]
        if r["why"] in ("bad-event", "unknown-tool"):
            raise vlib.Inconclusive("the generator produced an event outside the domain of the specification: %s" % json.dumps(ev)[:600])
        got = ev["files"] if ev["tool"] == "dist" else [x["id"] for x in ev["out"]]
        ctx.violation("C16.trace.%s.%s" % (ev["tool"], r["why"]), trace_class(ev),
                      "%s on %d random records [%s level]: what came out is rejected by OptTrace (%s): %s %s" %
                      (" ".join(ev["argv"]), len(ev["recs"]), ev["level"], r["why"], str(got)[:300], ev.get("msg", "")), ev)
    if not ctx.replay:
        for need in ("grep", "grep/paired", "annot", "dist"):
            for level in ("lib", "bin"):
                ctx.expect_vacuity("class trace/%s/%s" % (level, need), ctx.classes.get("trace/%s/%s" % (level, need), 0))
    ctx.samples.append({"trace_event": {k: events[0][k] for k in ("tool", "argv", "pred") if k in events[0]}})


def replay_one(ctx):
    """bin/check C16 --replay <file>: re-runs one reported violation (binary level: the command line under every
    configuration; library level: the case through the harness; trace event: OptTrace on the recorded event)."""
    blob = json.load(open(ctx.replay))
    case = blob["case"]
    if "recs" in case:      # a rejected trace event: run it again on the current code, OptTrace judges what comes out now
        old, tr = ctx.path("event.ndjson"), ctx.path("trace.ndjson")
        vlib.write_ndjson(old, [case] * 3)
        args = ["record", "C16", "--out", tr, "--opt", "rerun=" + old]
        if case.get("level") == "bin":
            args += ["--opt", "bindir=" + ctx.build_cmds(TOOLS)]
        ctx.harness(args)
        judge_trace(ctx, tr)
        return ctx.finish()
    cases_path = ctx.path("cases.ndjson")
    ctx.tlc_model("OptCases", "OptCases_data.cfg", env={"VERIF_CASES": cases_path, "VERIF_SEED": 1}, timeout=600)
    data = [c for c in vlib.read_cases(cases_path) if c["tool"] == "data"][0]
    clean = {x: y for x, y in case.items() if not x.startswith("_")}
    if blob["assert"].startswith("C16.lib."):
        one = ctx.path("one.ndjson")
        vlib.write_ndjson(one, [data, clean])
        for rep in range(4):
            res = ctx.path("res%d.ndjson" % rep)
            ctx.harness(["replay", "C16", "--cases", one, "--out", res], env={"VERIF_SEED": ctx.seed + rep})
            ctx.add_results(res)
        return ctx.finish()
    runner = Runner(ctx, data)
    k = 0
    for cpu, bs in CONFIGS:
        for fq in ((False, True) if clean["tool"] in ("grep", "annot") else (False,)):
            for save in ((False, True) if clean["tool"] == "grep" else (False,)):
                for rep in range(3):
                    k += 1
                    runner.add(clean, cpu, bs, fq, save, k)
    runner.run()
    return ctx.finish()

"""X02 (extension) - the aggregating commands obicount, obisummary, obimatrix.

M: TLC on spec/L3_command/AggregMC.tla (laws of Aggreg.tla on every sequence of <= MaxLen records of a curated
   pool: summary of a concatenation = merge of the summaries, merge associative / commutative with the empty
   summary as identity, order-freeness, obicount = projections of the totals of Command.tla, the two matrix
   layouts are transposes, totals conserved); exports one case per (record sequence, command line).
R: every exported case (quick: a seeded sample stratified by scenario class) is run on the real binaries
   (obisummary JSON/YAML, obicount -v -r -s, obimatrix in its three layouts; file, stdin, two files; several
   --max-cpu / --batch-size) and on the library (DataSummary.Update per batch + Add along 7 merge trees for every
   3-way cut, ISummary and IMatrix with 1..3 workers, parsed-JSON and native attribute values).
T: seeded random data sets of up to thousands of records (files larger than the 1 MiB read buffer, 1..16
   workers, random merge trees): AggregTrace.tla re-evaluates the definitions on every logged run.
"""
import json
import os
import re
import vlib

TOOLS = ["obisummary", "obimatrix", "obicount"]


def quiet_asserts(ctx):
    """assertions of the known findings: reported, but they do not stop the replay early"""
    return sorted({k["assert"] for k in ctx.findings.entries if k.get("kind") == "known" and "assert" in k})


def replay_cases(ctx, cases_path, bindir, timeout=3000):
    res = ctx.path("res-%d.ndjson" % len(ctx.checker_cmds))
    args = ["replay", "X02", "--cases", cases_path, "--out", res, "--opt", "bindir=" + bindir]
    q = quiet_asserts(ctx)
    if q:
        args += ["--opt", "quiet=" + ",".join(q)]
    ctx.harness(args, timeout=timeout)
    return ctx.add_results(res)


CHUNK_BYTES = 24 << 20      # TLC holds the whole decoded trace in memory: validate long traces by pieces


def validate(ctx, trace, heap=None, timeout=900):
    pieces, cur, size = [], [], 0
    for line in open(trace):
        if cur and size + len(line) > CHUNK_BYTES:
            pieces.append(cur)
            cur, size = [], 0
        cur.append(line)
        size += len(line)
    if cur:
        pieces.append(cur)
    all_events, all_verdicts = [], []
    for k, lines in enumerate(pieces):
        part = trace
        if len(pieces) > 1:
            part = "%s.part%d" % (trace, k)
            open(part, "w").writelines(lines)
        events, verdicts = ctx.trace_validate("AggregTrace", "AggregTrace.cfg", part, timeout=timeout, heap=heap)
        if len(verdicts) != len(events):
            raise vlib.Inconclusive("AggregTrace gave %d verdicts for %d events" % (len(verdicts), len(events)))
        report(ctx, events, verdicts)
        all_events += events
        all_verdicts += verdicts
        if len(pieces) > 1:
            os.remove(part)
    return all_events, all_verdicts


def report(ctx, events, verdicts):
    for v in verdicts:
        ev = events[v["l"] - 1]
        key = "T:" + v["cls"]
        ctx.classes[key] = ctx.classes.get(key, 0) + 1
        n = len(ev["recs"]) if "recs" in ev else sum(len(b) for b in ev["batches"])
        for why in v["why"]:
            what = ev.get("argv") or ("%s (library), %s values" % (ev["k"], ev.get("style", "")))
            slim = {k: x for k, x in ev.items() if k not in ("recs", "batches", "obs", "tab", "rows")}
            slim["records"] = n
            ctx.violation("X02." + why, v["cls"],
                          "%s on %d records [%s]: rejected by AggregTrace (%s) %s" % (what, n, ev.get("input", "in-process"), why, ev.get("note", "")),
                          {"event": slim, "rerun": ev.get("gen")})


def main(ctx):
    thorough = ctx.tier == "thorough"
    bindir = ctx.build_cmds(TOOLS)
    if ctx.replay:
        blob = json.load(open(ctx.replay))
        case = blob["case"]
        if "rerun" in case:                       # a recorded run: regenerate the same scenario, validate it again
            g = case["rerun"]
            ctx.seed = int(g["seed"])
            trace = ctx.path("trace.ndjson")
            args = ["record", "X02", "--out", trace, "--n", g["n"], "--opt", "bindir=" + bindir, "--opt", "index=%d" % g["index"],
                    "--opt", "maxrecs=%d" % g["maxrecs"]]
            if g.get("only"):
                args += ["--opt", "only=" + g["only"]]
            ctx.harness(args, timeout=900)
            validate(ctx, trace)
        else:
            cases = ctx.path("cases.ndjson")
            vlib.write_ndjson(cases, [case])
            replay_cases(ctx, cases, bindir)
        return ctx.finish()

    # M ---------------------------------------------------------------------------------------
    cases_path = ctx.path("cases.ndjson")
    cfg = "AggregMC_thorough.cfg" if thorough else "AggregMC_quick.cfg"
    res = ctx.tlc_model("AggregMC", cfg, env={"VERIF_CASES": cases_path}, timeout=2400, heap="8g")
    # one exported line per terminal state (guards against torn appends); thorough exports ~90 k lines: they are
    # counted and classified here and parsed by the driver only
    by_cls, ncases = {}, 0
    for line in open(cases_path):
        m = re.search(r'\\"cls\\":\\"([^"\\]+)\\"', line)
        if not m:
            raise vlib.Inconclusive("exported case line without a class: %s" % line[:200])
        by_cls.setdefault(m.group(1), []).append(ncases)
        ncases += 1
    if ncases * 2 != res.distinct:
        raise vlib.Inconclusive("exported %d cases for %d terminal states" % (ncases, res.distinct // 2))
    ctx.extra["exported_cases"] = ncases
    ctx.extra["model_scenario_classes"] = {k: len(v) for k, v in sorted(by_cls.items())}

    # R ---------------------------------------------------------------------------------------
    if thorough:
        sel, nsel = cases_path, ncases
    else:
        keep = set()
        for k in sorted(by_cls):
            keep.update(vlib.sample(ctx.rng, by_cls[k], 30))
        sel, nsel = ctx.path("selected.ndjson"), len(keep)
        with open(sel, "w") as f:
            for i, line in enumerate(open(cases_path)):
                if i in keep:
                    f.write(line)
    summ = replay_cases(ctx, sel, bindir)
    if not summ.get("aborted_after_failures"):
        for need in ("summary/plain", "count/plain", "matrix/bysample/plain", "matrix/byrecord/plain", "three/plain",
                     "matrix/bysample/nomap", "matrix/byrecord/dup", "three/dup", "count/norecord", "summary/norecord",
                     "lib/summary/plain/merge", "lib/summary/plain/isummary", "lib/matrix/byrecord/plain/imatrix"):
            ctx.expect_vacuity("replayed class " + need, ctx.classes.get(need, 0))
    ctx.extra["replayed_cases"] = nsel

    # T ---------------------------------------------------------------------------------------
    trace = ctx.path("trace.ndjson")
    n = 5600 if thorough else 84
    ctx.harness(["record", "X02", "--out", trace, "--n", n, "--opt", "bindir=" + bindir,
                 "--opt", "maxrecs=%d" % (3000 if thorough else 1200)], timeout=1800)
    events, verdicts = validate(ctx, trace, heap="8g", timeout=2400)
    kinds = {}
    for e in events:
        kinds[e["k"]] = kinds.get(e["k"], 0) + 1
    ctx.extra["trace_events_by_kind"] = kinds
    big = [e for e in events if e["k"] == "summary" and e.get("nbytes", 0) > (1 << 20)]
    ctx.extra["summary_runs_on_files_larger_than_the_read_buffer"] = len(big)
    ctx.extra["largest_record_set"] = max((len(e["recs"]) for e in events if "recs" in e), default=0)
    if not ctx.violations:
        for k in ("summary", "merge", "isummary", "matrix", "three", "imatrix", "count"):
            ctx.expect_vacuity("trace events of kind " + k, kinds.get(k, 0))
        ctx.expect_vacuity("obisummary on a file larger than the 1 MiB read buffer", len(big))
    e0 = events[0]
    ctx.samples.append({"trace_event": {k: v for k, v in e0.items() if k not in ("recs", "batches")},
                        "first_records": (e0.get("recs") or e0["batches"][0])[:2]})
    ctx.assumptions += [
        "records are FASTA records with a JSON header; their parsing is C01/C02's subject (the check renders abstract records to text and to BioSequence objects)",
        "the `count` annotation is an integer when present; `merged_sample` is a map of integers; `sample` is a string; names are printable ASCII",
        "YAML and JSON outputs are decoded with gopkg.in/yaml.v3 and encoding/json; CSV with encoding/csv",
        "TLC integers are 32-bit: totals stay below 2^31",
    ]
    return ctx.finish(rule="model cases: one per (sequence of <= MaxLen distinct pool records, command line); a case is non-trivial when it has at least one record; "
                           "trace events are whole runs of a command or of the library on seeded random records")

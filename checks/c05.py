"""C05 - command output is a function of input and options, not of parallelism.

M: Pipeline.tla: Confluence / SingleOwner / Conservation under all interleavings (W<=3, <=3-4 batches, all
   keep masks) and the emit schedules of the pool.
R: the REAL per-record workers (reverse complement in place / copy, PCR, demultiplexing) inside the real
   worker pool under every exported emit schedule (gates), compared with the one-worker reference;
   recycled buffers are poisoned by the verif hook.
T: ten commands x (max-cpu, batch-size, GOMAXPROCS, repetitions) on the wolf tutorial data: outputs must be
   byte-identical per (input, functional options); validated by CommandTrace.tla.
"""
import gzip
import hashlib
import json
import os
import vlib

CMDS = ["obiconvert", "obigrep", "obiannotate", "obicomplement", "obipairing", "obimultiplex", "obipcr",
        "obicount", "obisummary", "obicsv"]


def main(ctx):
    thorough = ctx.tier == "thorough"
    if ctx.replay:
        blob = json.load(open(ctx.replay))
        case = blob["case"]
        if "runs" in case:
            print("[check] replay of a command event: re-running the command grid with seed %s" % blob.get("seed"))
            ctx.seed = int(blob.get("seed", ctx.seed))
            evs = command_events(ctx, False, only=case.get("cmd"))
            validate(ctx, evs)
            return ctx.finish()
        cases = ctx.path("cases.ndjson")
        vlib.write_ndjson(cases, [case])
        res = ctx.path("res.ndjson")
        ctx.harness(["replay", "C05", "--cases", cases, "--out", res])
        ctx.add_results(res)
        return ctx.finish()

    ctx.tlc_model("Pipeline", "Pipeline_thorough.cfg" if thorough else "Pipeline_quick.cfg", timeout=1700, deadlock_check=True)
    sched = ctx.path("sched.ndjson")
    ctx.tlc_model("Pipeline", "Pipeline_sched_thorough.cfg" if thorough else "Pipeline_sched.cfg",
                  env={"VERIF_CASES": sched}, timeout=1500, deadlock_check=True)
    s = [c for c in vlib.read_cases(sched) if len(c["sizes"]) >= 2]
    ctx.expect_vacuity("schedules", len(s))
    sc = ctx.path("sched_cases.ndjson")
    vlib.write_ndjson(sc, s)
    res = ctx.path("res.ndjson")
    ctx.harness(["replay", "C05", "--cases", sc, "--out", res], timeout=1500)
    ctx.add_results(res)
    for k in ("revcomp", "revcomp_copy", "pcr", "demux"):
        ctx.expect_vacuity("gated schedules with worker " + k, ctx.classes.get(k, 0))
    if ctx.classes.get("sched/unreached", 0) > len(s):
        raise vlib.Inconclusive("too many schedules not forced: %s" % ctx.classes)

    # the pool without gates on very long streams of one-record batches: batch ownership under real timing
    res2 = ctx.path("res_stress.ndjson")
    ctx.harness(["replay", "C05", "--cases", sc, "--out", res2, "--opt", "stress=%d" % (400000 if thorough else 200000),
                 "--opt", "stressrounds=%d" % (6 if thorough else 2)], timeout=1500)
    ctx.add_results(res2)
    for k in ("stress/w2", "stress/w16", "multifile"):
        ctx.expect_vacuity("ungated stress " + k, ctx.classes.get(k, 0))

    evs = command_events(ctx, thorough)
    validate(ctx, evs)
    ctx.assumptions += ["relational oracle: outputs are compared across configurations, not with an absolute expected value (that is C16/C03)",
                        "recycled byte slices are overwritten by the verif hook so that a use-after-recycle changes the output"]
    return ctx.finish(rule="case = (real worker, emit schedule); trace event = (command, functional options) x configurations reduced to output digests")


def validate(ctx, evs):
    trace = ctx.path("trace.ndjson")
    vlib.write_ndjson(trace, evs)
    events, rejects = ctx.trace_validate("CommandTrace", "CommandTrace.cfg", trace)
    for r in rejects:
        ev = events[r["l"] - 1]
        run = ev["runs"][r["run"] - 1]
        ctx.violation("C05.cmd.%s.%s" % (ev["cmd"], r["why"]), ev["opts"],
                      "%s %s: configuration %s gives rc=%d sha=%s, reference configuration %s gives sha=%s"
                      % (ev["cmd"], ev["opts"], run["cfg"], run["rc"], run["sha"][:12], ev["runs"][0]["cfg"], ev["runs"][0]["sha"][:12]), ev)
    ctx.samples.append({"command_event": {"cmd": events[0]["cmd"], "opts": events[0]["opts"], "runs": events[0]["runs"][:3]}})


def command_events(ctx, thorough, only=None):
    bindir = ctx.build_cmds(CMDS)
    d = ctx.path("c05files")
    os.makedirs(d, exist_ok=True)
    nreads = 1000 if thorough else 250
    skip = (ctx.seed % 20) * 500
    for name, src in (("F.fq", "wolf_F.fastq.gz"), ("R.fq", "wolf_R.fastq.gz")):
        with gzip.open(os.path.join(vlib.REPO, "sample", src), "rt") as f, open(os.path.join(d, name), "w") as o:
            for i, line in enumerate(f):
                if i < skip * 4:
                    continue
                if i >= (skip + nreads) * 4:
                    break
                o.write(line)
    # read pairs from a tandem repeat (forward U-V-U, reverse V-U-V): two overlap positions share the same number of
    # 4-mers and the same overlap length, so the fast alignment heuristic has a tie to break
    comp = {"a": "t", "c": "g", "g": "c", "t": "a"}
    rc = lambda x: "".join(comp[c] for c in reversed(x))
    with open(os.path.join(d, "F.fq"), "a") as ff, open(os.path.join(d, "R.fq"), "a") as fr:
        for k in range(8):
            u = "".join(ctx.rng.choice("acgt") for _ in range(50))
            v = "".join(ctx.rng.choice("acgt") for _ in range(50))
            ff.write("@tandem%d\n%s\n+\n%s\n" % (k, u + v + u, "I" * 150))
            fr.write("@tandem%d\n%s\n+\n%s\n" % (k, rc(v + u + v), "I" * 150))
    sheet = os.path.join(vlib.REPO, "sample", "wolf_diet_ngsfilter.txt")
    b = lambda c: os.path.join(bindir, c)
    r = ctx.run_many([{"argv": [b("obipairing"), "--max-cpu", "1", "-F", "F.fq", "-R", "R.fq"], "cwd": d}], timeout=300)[0]
    if r["rc"] != 0 or not r["out"]:
        raise vlib.Inconclusive("reference obipairing run failed: " + r["err"][-400:])
    open(os.path.join(d, "ali.fq"), "wb").write(r["out"])
    # a sample-annotated file (reference demultiplexing) for the reductions that work per sample
    r = ctx.run_many([{"argv": [b("obimultiplex"), "--max-cpu", "1", "-t", sheet, "-e", "2", "ali.fq"], "cwd": d}], timeout=300)[0]
    if r["rc"] != 0:
        raise vlib.Inconclusive("reference obimultiplex run failed: " + r["err"][-400:])
    open(os.path.join(d, "assigned.fq"), "wb").write(r["out"])
    funcs = [
        ("obisummary", ["assigned.fq"]),
        ("obicount", ["assigned.fq"]),
        ("obiconvert", ["--fasta-output", "ali.fq"]),
        ("obiconvert", ["--json-output", "ali.fq"]),
        ("obigrep", ["-l", "100", "-s", "ttag", "ali.fq"]),
        ("obiannotate", ["--length", "-k", "count", "ali.fq"]),
        ("obicomplement", ["ali.fq"]),
        ("obipairing", ["-F", "F.fq", "-R", "R.fq"]),
        ("obipairing", ["--exact-mode", "-F", "F.fq", "-R", "R.fq"]),
        ("obimultiplex", ["-t", sheet, "-e", "2", "ali.fq"]),
        ("obipcr", ["--forward", "TTAGATACCCCACTATGC", "--reverse", "TAGAACAGGCTCCTCTAG", "-e", "2", "-l", "10", "-L", "300", "ali.fq"]),
        ("obicount", ["ali.fq"]),
        ("obisummary", ["ali.fq"]),
        ("obicsv", ["--ids", "--sequence", "--count", "ali.fq"]),
        # standard input (the kseq reader takes its buffers from the slice pool) with records rejected, hence recycled, on the way
        ("obigrep", ["-l", "100", "-s", "ttag", "<ali.fq"]),
        ("obiconvert", ["--fasta-output", "<ali.fq"]),
    ]
    if only:
        funcs = [f for f in funcs if f[0] == only]
    if thorough:
        cfgs = [(c, bs, g) for c in (1, 2, 3, 4, 8, 16, 32) for bs in (1, 2, 5, 100000) for g in (None,)] + \
               [(c, bs, g) for c in (2, 16) for bs in (1, 100000) for g in (1, 4)]
        reps = 3
    else:
        cfgs = [(1, 100000, None), (2, 1, None), (3, 7, None), (4, 2, None), (16, 1, None), (16, 100000, None), (32, 5, None), (8, 3, 1), (2, 2, 4)]
        reps = 2
    jobs, meta = [], []
    for cmd, opts in funcs:
        for (cpu, bs, gmp) in cfgs:
            for rep in range(reps if cpu > 1 else 1):
                env = {"GOMAXPROCS": str(gmp)} if gmp else {}
                stdin = [o[1:] for o in opts if o.startswith("<")]
                jobs.append({"argv": [b(cmd), "--max-cpu", str(cpu), "--batch-size", str(bs)] + [o for o in opts if not o.startswith("<")],
                             "cwd": d, "env": env, "stdin": os.path.join(d, stdin[0]) if stdin else None})
                meta.append((cmd, " ".join(o if not o.startswith("/") else os.path.basename(o) for o in opts),
                             "cpu=%d bs=%d gomaxprocs=%s rep=%d" % (cpu, bs, gmp, rep)))
    res = ctx.run_many(jobs, timeout=300)
    evs = {}
    for (cmd, opts, cfg), r in zip(meta, res):
        e = evs.setdefault((cmd, opts), {"cmd": cmd, "opts": opts, "runs": []})
        e["runs"].append({"cfg": cfg, "rc": r["rc"], "hung": 1 if r["timeout"] else 0,
                          "sha": hashlib.sha1(r["out"]).hexdigest(), "nbytes": len(r["out"])})
    for e in evs.values():
        if e["runs"][0]["nbytes"] == 0:
            raise vlib.Inconclusive("reference run of %s %s produced no output" % (e["cmd"], e["opts"]))
    # repeated executions of one tiny command on many CPUs: start-up races (first use of shared caches by
    # several workers at once) show as a crash or a different output once in thousands of runs
    if not only or only == "obigrep":
        tiny = os.path.join(d, "tiny.fa")
        with open(tiny, "w") as f:
            for i in range(12):
                f.write('>r%d {"count":%d,"k":"v%d","m":{"a":1,"b":2}}\nacgtacgtacgtacgtagctagctagct\n' % (i, i + 1, i))
        nrep = 12000 if thorough else 2500
        sj = [{"argv": [b("obigrep"), "--max-cpu", "16", "--batch-size", "1", "-l", "5", tiny], "cwd": d} for _ in range(nrep)]
        sres = ctx.run_many(sj, timeout=120, workers=32)
        e = {"cmd": "obigrep", "opts": "-l 5 tiny.fa (x%d repetitions)" % nrep, "runs": []}
        seen = set()
        for i, r in enumerate(sres):
            sha = hashlib.sha1(r["out"]).hexdigest()
            key = (r["rc"], sha)
            if i == 0 or key not in seen:      # keep the event small: one entry per distinct outcome
                e["runs"].append({"cfg": "cpu=16 bs=1 rep=%d" % i, "rc": r["rc"], "hung": 1 if r["timeout"] else 0, "sha": sha,
                                  "nbytes": len(r["out"]), "stderr": r["err"][-300:] if r["rc"] else ""})
            seen.add(key)
        evs[("obigrep", "stress")] = e
        jobs += sj
    # the same for a command whose workers empty most batches (the writer meets the batches in completion order)
    if not only or only == "obipcr":
        nrep = 1500 if thorough else 300
        argvp = [b("obipcr"), "--max-cpu", "4", "--batch-size", "2", "--forward", "TTAGATACCCCACTATGC", "--reverse",
                 "TAGAACAGGCTCCTCTAG", "-e", "2", "-l", "10", "-L", "300", "ali.fq"]
        sj = [{"argv": argvp, "cwd": d} for _ in range(nrep)]
        sres = ctx.run_many(sj, timeout=120, workers=24)
        e = {"cmd": "obipcr", "opts": "-e 2 -l 10 -L 300 ali.fq (x%d repetitions)" % nrep, "runs": []}
        seen = set()
        for i, r in enumerate(sres):
            sha = hashlib.sha1(r["out"]).hexdigest()
            key = (r["rc"], sha)
            if i == 0 or key not in seen:
                e["runs"].append({"cfg": "cpu=4 bs=2 rep=%d" % i, "rc": r["rc"], "hung": 1 if r["timeout"] else 0, "sha": sha,
                                  "nbytes": len(r["out"]), "stderr": r["err"][-300:] if r["rc"] else ""})
            seen.add(key)
        evs[("obipcr", "stress")] = e
        jobs += sj
    ctx.extra["command_runs"] = len(jobs)
    return list(evs.values())

"""C07 - reverse complement, subsequence and copy obey their algebraic laws and share no mutable state.

M: TLC on spec/L1_stream/SeqLaws.tla (laws of the value functions on every short sequence; exports one
   case per (sequence, operation, window), the complement of every symbol, pattern and k-mer cases) and on
   spec/L1_stream/SeqHeap.tla (all operation histories; implementation-shaped heap with recycle pool
   against value semantics; every reachable state = one exported history).
R: every exported case runs on real obiseq.BioSequence objects (hook H1: recycled slices poisoned; pools
   reset before each history); ALL live objects are compared with the values of the specification.
T: random histories on long sequences / many objects run concurrently on the shared pool; SeqHeapTrace.tla
   recomputes value semantics after every logged step.
"""
import json
import os
import vlib


def trace_violations(ctx, events, rejects):
    for r in rejects:
        ev = events[r["l"] - 1]
        why, _, at = r["why"].partition("@")
        i = int(at) if at else 1
        st = ev["steps"][i - 1]
        if why == "bad-event":
            raise vlib.Inconclusive("trace event %d step %d is outside the specified domain (generator problem): %s"
                                    % (r["l"], i, json.dumps({k: v for k, v in st.items() if k not in ("obs", "ret")})))
        ops = "; ".join("%s(o=%s r=%s)" % (s["op"], s["o"], s["r"]) for s in ev["steps"][:i])
        ctx.violation("C07.trace.%s.%s" % (why, st["op"]), "trace/%s" % ev["kind"],
                      "step %d of a recorded %s history rejected by SeqHeapTrace (%s): %s%s" %
                      (i, ev["kind"], why, ops[-220:], (" :: " + st["problem"]) if st.get("problem") else ""),
                      {"n": ev["n"], "kind": ev["kind"], "steps": ev["steps"][:i]})


def main(ctx):
    thorough = ctx.tier == "thorough"
    tier = "thorough" if thorough else "quick"
    if ctx.replay:
        blob = json.load(open(ctx.replay))
        case = blob["case"]
        cases = ctx.path("cases.ndjson")
        vlib.write_ndjson(cases, [case])
        if "steps" in case:          # a recorded history: run its operations again, let TLC decide again
            trace = ctx.path("trace.ndjson")
            ctx.harness(["record", "C07", "--cases", cases, "--out", trace])
            events, rejects = ctx.trace_validate("SeqHeapTrace", "SeqHeapTrace.cfg", trace)
            trace_violations(ctx, events, rejects)
        else:
            res = ctx.path("res.ndjson")
            ctx.harness(["replay", "C07", "--cases", cases, "--out", res])
            ctx.add_results(res)
        return ctx.finish()

    # M ---------------------------------------------------------------------------------------
    laws = ctx.path("laws.ndjson")
    hist = ctx.path("hist.ndjson")
    r1 = ctx.tlc_model("SeqLaws", "SeqLaws_%s.cfg" % tier, env={"VERIF_CASES": laws}, timeout=1500)
    r2 = ctx.tlc_model("SeqHeap", "SeqHeap_%s.cfg" % tier, env={"VERIF_CASES": hist}, timeout=1500)
    try:
        lawcases = vlib.read_cases(laws)
        histcases = vlib.read_cases(hist)
    except ValueError as ex:
        raise vlib.Inconclusive("torn line in exported cases: %s" % ex)
    if len(histcases) != r2.distinct:
        raise vlib.Inconclusive("SeqHeap exported %d histories for %d states" % (len(histcases), r2.distinct))
    kinds = {}
    for c in lawcases:
        kinds[c["k"]] = kinds.get(c["k"], 0) + 1
    for kk in ("rc", "sub", "comp", "apat", "kmer"):
        ctx.expect_vacuity("law cases of kind " + kk, kinds.get(kk, 0))
    if kinds["comp"] != 19:
        raise vlib.Inconclusive("complement table cases: %d symbols instead of 19" % kinds["comp"])
    ctx.extra["exported_law_cases"] = kinds
    ctx.extra["exported_histories"] = len(histcases)
    ctx.extra["longest_history"] = max(len(c["h"]) for c in histcases)
    # R ---------------------------------------------------------------------------------------
    allc = ctx.path("cases.ndjson")
    with open(allc, "w") as f:
        for p in (laws, hist):
            for line in open(p):
                f.write(line)
    res = ctx.path("res.ndjson")
    ctx.harness(["replay", "C07", "--cases", allc, "--out", res], timeout=1500)
    summ = ctx.add_results(res)
    want = len(lawcases) + len(histcases) + ctx.classes.get("table/obikmer", 0)
    if summ["checked"] != want:
        raise vlib.Inconclusive("replayed %d of %d cases" % (summ["checked"], want))
    for need in ("hist/rc/inplace", "hist/rc", "hist/copy", "hist/sub", "hist/sub/circular", "hist/recycle", "hist/join",
                 "hist/setqual/after-recycle", "hist/copy/after-recycle", "hist/new/after-recycle",
                 "law/rc/annotated", "law/rc/plain", "law/sub/linear", "law/sub/circular", "law/sub/circular-wrap",
                 "law/sub/circular-over", "table/obiseq", "table/obikmer", "table/apat", "table/apat-pattern", "kmer"):
        ctx.expect_vacuity("class " + need, ctx.classes.get(need, 0))
    # T ---------------------------------------------------------------------------------------
    trace = ctx.path("trace.ndjson")
    ctx.harness(["record", "C07", "--out", trace, "--n", 6000 if thorough else 1200], timeout=900)
    events, rejects = ctx.trace_validate("SeqHeapTrace", "SeqHeapTrace.cfg", trace, timeout=1500)
    trace_violations(ctx, events, rejects)
    steps = sum(len(e["steps"]) for e in events)
    ctx.extra["trace_histories"] = len(events)
    ctx.extra["trace_steps"] = steps
    ctx.extra["trace_longest_sequence"] = max((len(s["v"]["seq"]) for e in events for s in e["steps"]), default=0)
    ctx.expect_vacuity("recorded steps", steps)
    e0 = events[1] if len(events) > 1 else events[0]
    ctx.samples.append({"trace_history_ops": [s["op"] for s in e0["steps"]][:12], "objects": e0["n"]})
    ctx.assumptions += [
        "a mismatch annotation is compared as (position, unordered pair of (symbol, score)); symbol case is ignored",
        "circular windows: at most one turn; to <= from < n denotes the window through the origin (from = to: a full turn)",
        "Join is specified on receivers without qualities (obiseq.Join ignores qualities; the property does not mention them)",
        "SetSequence/SetQualities are called with vectors of the current length",
        "replay runs on one P with the slice pool reset before each history (deterministic sync.Pool); hook H1 poisons recycled slices",
    ]
    ctx.extra["exhaustive"] = True
    return ctx.finish(rule="one case per reachable state of SeqHeap (= history) and per (sequence, operation, window) of SeqLaws; "
                           "a trace event is one recorded history, validated step by step")

"""C07 - reverse complement, subsequence and copy obey their algebraic laws and share no mutable state.

M: TLC on spec/L1_stream/SeqLaws.tla (laws of the value functions on every short sequence; exports one
   case per (sequence, operation, window), the complement of every symbol, pattern and k-mer cases) and on
   spec/L1_stream/SeqHeap.tla (all operation histories; implementation-shaped heap with recycle pool
   against value semantics; every reachable state = one exported history).
R: every exported case runs on real obiseq.BioSequence objects (hook H1: recycled slices poisoned; pools
   reset before each history); ALL live objects are compared with the values of the specification.
T: random histories on long sequences / many objects run concurrently on the shared pool; SeqHeapTrace.tla
   recomputes value semantics after every logged step.
"""
import json
import os
import re
import vlib


def scan(paths):
    """Cases exported by TLC, one at a time (each line: a JSON string holding a JSON object)."""
    for path in paths.split(","):
        with open(path) as f:
            for line in f:
                line = line.strip()
                if line:
                    v = json.loads(line)
                    yield json.loads(v) if isinstance(v, str) else v


KIND_RE = re.compile(r'\\?"k\\?":\\?"(\w+)\\?"')


def fast_scan(path):
    """Line count, kinds and number of windows of an export without decoding every line (the harness
    decodes each line and exits 2 on a torn one); every 499th line is decoded here."""
    n, kinds, nwin, longest = 0, {}, 0, 0
    with open(path) as f:
        for line in f:
            if len(line) < 3:
                continue
            if not (line.startswith('"{') and line.rstrip().endswith('}"')):
                raise ValueError("torn line %d in %s" % (n + 1, path))
            n += 1
            m = KIND_RE.search(line[:40])
            if m:
                kinds[m.group(1)] = kinds.get(m.group(1), 0) + 1
                if m.group(1) == "subs":
                    nwin += line.count('\\"from\\"')
            if n % 499 == 1:
                c = json.loads(json.loads(line))
                if "h" in c:
                    longest = max(longest, len(c["h"]))
                if c.get("k") == "subs" and len(c["ws"]) != line.count('\\"from\\"'):
                    raise ValueError("window count mismatch at line %d of %s" % (n, path))
    return n, kinds, nwin, longest


def trace_violations(ctx, events, rejects):
    bad, found = [], 0
    for r in rejects:
        ev = events[r["l"] - 1]
        why, _, at = r["why"].partition("@")
        i = int(at) if at else 1
        st = ev["steps"][i - 1]
        if why == "bad-event":
            # a consensus handed over by the library's own read pairing that shows the pool's poison marker was given a
            # slice somebody else had already recycled: real-code behaviour, not a generator problem
            if st["op"] == "new" and ev["kind"] == "paired" and i == 1 and "!" in st["v"]["seq"]:
                why = "poisoned-consensus"
            else:
                bad.append("trace event %d step %d is outside the specified domain (generator problem): %s"
                           % (r["l"], i, json.dumps({k: v for k, v in st.items() if k not in ("obs", "ret")})[:1500]))
                continue
        found += 1
        ops = "; ".join("%s(o=%s r=%s)" % (s["op"], s["o"], s["r"]) for s in ev["steps"][:i])
        ctx.violation("C07.trace.%s.%s" % (why, st["op"]), "trace/%s" % ev["kind"],
                      "step %d of a recorded %s history rejected by SeqHeapTrace (%s): %s%s" %
                      (i, ev["kind"], why, ops[-220:], (" :: " + st["problem"]) if st.get("problem") else ""),
                      {"n": ev["n"], "kind": ev["kind"], "steps": ev["steps"][:i]})
    if bad and not found:
        raise vlib.Inconclusive(bad[0])


def trace_phase(ctx, thorough):
    trace = ctx.path("trace.ndjson")
    ctx.harness(["record", "C07", "--out", trace, "--n", 6000 if thorough else 600], timeout=900)
    events, rejects = ctx.trace_validate("SeqHeapTrace", "SeqHeapTrace.cfg", trace, timeout=1500)
    trace_violations(ctx, events, rejects)
    steps = sum(len(e["steps"]) for e in events)
    ctx.extra["trace_histories"] = len(events)
    ctx.extra["trace_steps"] = steps
    ctx.extra["trace_longest_sequence"] = max((len(s["v"]["seq"]) for e in events for s in e["steps"]), default=0)
    ctx.expect_vacuity("recorded steps", steps)
    ops = {}
    for e in events:
        for s in e["steps"]:
            key = s["op"]
            if s["op"] in ("rc", "join") and s["inplace"] == 1:
                key += "/inplace"
            if s["op"] == "sub" and s["circ"] == 1:
                key += "/circular-wrap" if s["to"] <= s["from"] else "/circular"
            ops[key] = ops.get(key, 0) + 1
    ctx.extra["trace_steps_by_operation"] = ops
    for need in ("new", "copy", "sub", "sub/circular", "sub/circular-wrap", "rc", "rc/inplace", "setseq", "setqual",
                 "mutate", "recycle", "join", "join/inplace"):
        ctx.expect_vacuity("recorded operation " + need, ops.get(need, 0))
    e0 = events[1] if len(events) > 1 else events[0]
    ctx.samples.append({"trace_history_ops": [s["op"] for s in e0["steps"]][:12], "objects": e0["n"]})


def replay_all(ctx, cases_path):
    """Replay every case.  A fatal error of the code under test (e.g. stack overflow in an endless
    recursion) kills the harness: the case it was running is reported as a violation and the replay
    resumes after it."""
    start, checked, crashes = 0, 0, 0
    prog = ctx.path("progress.json")
    while True:
        res = ctx.path("res%d.ndjson" % crashes)
        p = ctx.harness(["replay", "C07", "--cases", cases_path, "--out", res, "--opt", "from=%d" % start,
                         "--opt", "progress=" + prog] + (["--opt", "skipdiverged=1"] if crashes else []),
                        timeout=1500, check=False)
        if p.returncode == 0:
            checked += ctx.add_results(res)["checked"]
            return checked, crashes
        try:
            k = int.from_bytes(open(prog, "rb").read(8), "little")
            case = next(c for j, c in enumerate(scan(cases_path)) if j == k)
        except Exception:
            raise vlib.Inconclusive("harness failed rc=%d without progress record:\n%s" % (p.returncode, p.stderr[:2000]))
        crashes += 1
        head = " ".join(p.stderr[:400].split())
        if k > start:       # results of the cases before the crash (deterministic: same run, stopped earlier)
            res0 = ctx.path("res%d_before.ndjson" % crashes)
            ctx.harness(["replay", "C07", "--cases", cases_path, "--out", res0, "--opt", "from=%d" % start,
                         "--opt", "to=%d" % k] + (["--opt", "skipdiverged=1"] if crashes > 1 else []), timeout=1500)
            checked += ctx.add_results(res0)["checked"]
        what = case.get("k") or ("hist/" + case["h"][-1]["op"])
        ctx.violation("C07.crash", "crash/" + what, "the code under test killed the process (rc=%d) while running this case: %s"
                      % (p.returncode, head), case)
        if crashes >= 3:     # enough evidence; the remaining cases are not replayed
            vlib.log("replay stopped after %d crashes of the code under test" % crashes)
            return checked, crashes
        start = k + 1


def main(ctx):
    thorough = ctx.tier == "thorough"
    tier = "thorough" if thorough else "quick"
    if ctx.replay:
        blob = json.load(open(ctx.replay))
        case = blob["case"]
        cases = ctx.path("cases.ndjson")
        vlib.write_ndjson(cases, [case])
        if "steps" in case:          # a recorded history: run its operations again, let TLC decide again
            trace = ctx.path("trace.ndjson")
            ctx.harness(["record", "C07", "--cases", cases, "--out", trace])
            events, rejects = ctx.trace_validate("SeqHeapTrace", "SeqHeapTrace.cfg", trace)
            trace_violations(ctx, events, rejects)
        else:
            replay_all(ctx, cases)
        return ctx.finish()

    # M ---------------------------------------------------------------------------------------
    laws = ctx.path("laws.ndjson")
    hist = ctx.path("hist.ndjson")
    r1 = ctx.tlc_model("SeqLaws", "SeqLaws_%s.cfg" % tier, env={"VERIF_CASES": laws}, timeout=1500)
    r2 = ctx.tlc_model("SeqHeap", "SeqHeap_%s.cfg" % tier, env={"VERIF_CASES": hist}, timeout=1500)
    # second population of histories: fewer kinds of operations, deeper (pool reuse needs depth)
    hist2 = ctx.path("hist2.ndjson")
    r3 = ctx.tlc_model("SeqHeap", "SeqHeap_deep%s.cfg" % ("_thorough" if thorough else ""), env={"VERIF_CASES": hist2}, timeout=1500)
    # third population: the empty sequence as receiver, argument and source of copies
    hist3 = ctx.path("hist3.ndjson")
    r4 = ctx.tlc_model("SeqHeap", "SeqHeap_empty.cfg", env={"VERIF_CASES": hist3}, timeout=1500)
    try:
        _, kinds, nwin, _ = fast_scan(laws)
        h1 = fast_scan(hist)
        h2 = fast_scan(hist2)
        h3 = fast_scan(hist3)
    except ValueError as ex:
        raise vlib.Inconclusive("exported cases: %s" % ex)
    nhist, longest = [h1[0], h2[0], h3[0]], max(h1[3], h2[3], h3[3])
    if nhist[0] != r2.distinct or nhist[1] != r3.distinct or nhist[2] != r4.distinct:
        raise vlib.Inconclusive("SeqHeap exported %s histories for %d+%d+%d states" % (nhist, r2.distinct, r3.distinct, r4.distinct))
    kinds["windows"] = nwin
    for kk in ("rc", "subs", "comp", "apat", "kmer"):
        ctx.expect_vacuity("law cases of kind " + kk, kinds.get(kk, 0))
    if kinds["comp"] != 19:
        raise vlib.Inconclusive("complement table cases: %d symbols instead of 19" % kinds["comp"])
    ctx.extra["exported_law_cases"] = kinds
    ctx.extra["exported_histories"] = sum(nhist)
    ctx.extra["longest_history"] = longest
    # R ---------------------------------------------------------------------------------------
    allc = ",".join((laws, hist, hist2, hist3))
    checked, crashes = replay_all(ctx, allc)
    want = sum(v for k, v in kinds.items() if k not in ("subs", "windows")) + nwin + sum(nhist) + ctx.classes.get("table/obikmer", 0)
    if crashes == 0 and checked != want:
        raise vlib.Inconclusive("replayed %d of %d cases" % (checked, want))
    if crashes == 0:
        for need in ("hist/rc/inplace", "hist/rc", "hist/copy", "hist/sub", "hist/sub/circular", "hist/recycle", "hist/join",
                     "hist/setqual/after-recycle", "hist/copy/after-recycle", "hist/new/after-recycle",
                     "law/rc/annotated", "law/rc/plain", "law/sub/linear", "law/sub/circular", "law/sub/circular-wrap",
                     "law/sub/circular-over", "table/obiseq", "table/obikmer", "table/apat", "table/apat-pattern", "kmer"):
            ctx.expect_vacuity("class " + need, ctx.classes.get(need, 0))
    # T ---------------------------------------------------------------------------------------
    try:
        trace_phase(ctx, thorough)
    except vlib.Inconclusive as ex:
        if not ctx.violations:
            raise
        vlib.log("trace phase not completed (%s); violations already found are reported" % str(ex)[:300])
    ctx.assumptions += [
        "a mismatch annotation is compared as (position, unordered pair of (symbol, score)); symbol case is ignored",
        "circular windows: at most one turn; to <= from < n denotes the window through the origin (from = to: a full turn)",
        "Join is specified on receivers without qualities (obiseq.Join ignores qualities; the property does not mention them)",
        "SetSequence/SetQualities are called with vectors of the current length",
        "replay runs on one P with the slice pool reset before each history (deterministic sync.Pool); hook H1 poisons recycled slices",
    ]
    ctx.extra["exhaustive"] = True
    return ctx.finish(rule="one case per reachable state of SeqHeap (= history) and per (sequence, operation, window) of SeqLaws; "
                           "a trace event is one recorded history, validated step by step")

"""C19 - exact De Bruijn weights and heaviest path; strand-invariant canonical k-mers.

M: TLC on spec/L0_kernel/KmerCheck.tla (definitions of Kmer.tla: canonical key = lexicographic min of the
   k-mer and its reverse complement, central digit ignored in sparse mode, strand invariance of the
   multiset of keys, 4-mer table; the rolling model - shift, mask, or on words of WL digits - refines
   the definition, and TLC sees where the model WITHOUT the mask goes wrong) and on DeBruijnCheck.tla
   (definitions of DeBruijn.tla: weights, successor relation, sources, cycle, heaviest walk from a
   source; the linear evaluation equals the enumeration of all walks; a single repeat-free sequence is
   its own unique heaviest walk).  Both export, per state, what the real code must answer.
R: every exported case on the real obikmer code: NewKmerMap[Uint64|Uint128|Uint256] +
   NormalizedKmerSlice + KmerAsString on s and revcomp(s) (fresh and reused buffer), Count4Mer;
   MakeDeBruijnGraph/Push/Weight (all 4^k k-mers)/Len/Nexts/Heads/HasCycle/HaviestPath/LongestConsensus,
   sequences pushed in both orders; the heaviest path is judged by weight and walk validity (ties allowed).
T: seeded random inputs (k up to 31 / 64, sequences up to hundreds of bases, read sets with errors,
   repeats, ambiguity codes), plus obiconsensus.BuildConsensus on read sets (the consensus must be a
   heaviest walk of the graph of the k-mer size it reports); KmerTrace.tla re-evaluates the definitions
   on every logged observation.
"""
import collections
import json
import os
import vlib

NEED_CLASSES = (
    "idx/plain/long/acgt/bits=64", "idx/plain/long/acgt/bits=128", "idx/plain/long/acgt/bits=256",
    "idx/sparse/long/acgt/bits=64", "idx/sparse/long/acgt/bits=128/reused-buffer",
    "idx/plain/short/acgt/bits=64", "idx/plain/eqk/acgt/bits=64", "idx/sparse/eqk/acgt/bits=256",
    "idx/plain/long/iupac/bits=64", "idx/sparse/long/iupac/bits=128",
    "idx/model_says_missing_mask_matters",
    "four/fresh", "four/reused-buffers", "four/fresh/short", "four/fresh/eq4",
    "graph/acyclic/k=2/n=1", "graph/acyclic/k=3/n=2", "graph/cyclic/k=2/n=1", "graph/cyclic/k=3/n=2",
    "graph/empty/k=3/n=1", "graph/acyclic/k=3/n=2/pushed-in-reverse-order",
    "graph/acyclic/k=3/n=1/iupac", "graph/cyclic/k=2/n=2/iupac",
    "graph/has_sequence_of_length_k", "graph/acyclic_with_branch", "graph/tied_heaviest_walks",
    "graph/single_sequence_without_repeated_kmer",
)

NEED_FAMILIES = (
    "idx/short", "idx/eqk", "idx/kplus", "idx/iupac", "idx/rna", "idx/lowcomplexity", "idx/long",
    "four/tiny", "four/repeats", "four/rna", "four/long",
    "graph/single", "graph/short", "graph/smallk", "graph/repeat", "graph/iupac", "graph/reads",
    "cons/reads", "cons/repeat",
)


def short(ev):
    """compact rendering of a trace event for messages and samples"""
    out = {}
    for k, v in ev.items():
        if k in ("s", "r"):
            out[k] = "".join(v)
        elif k == "S":
            out[k] = ["".join(x) for x in v]
        elif k in ("keys", "rkeys", "P", "path"):
            out[k] = ["".join(str(d) for d in x) for x in v][:40]
        elif k == "strs":
            out[k] = ["".join("acgt#????!"[d] for d in x) for x in v]
        elif k == "cons":
            out[k] = "".join("acgt"[d] for d in v)
        elif k == "PW":
            out[k] = v[:40]
        else:
            out[k] = v
    return out


def describe(ev, why):
    e = short(ev)
    if ev["kind"] == "idx":
        return ("NewKmerMap[Uint%d](k=%d, sparse=%d).NormalizedKmerSlice(%s) -> %d keys %s... (%d stray high digits); on the reverse complement -> %d keys %s...%s"
                % (ev["bits"], ev["k"], ev["sp"], e["s"][:120], len(ev["keys"]), e["keys"][:6], ev["stray"], len(ev["rkeys"]), e["rkeys"][:6],
                   (" ; PANIC " + ev["panmsg"]) if ev["pan"] else ""))
    if ev["kind"] == "four":
        return "Count4Mer(%s) -> %s%s" % (e["s"][:120], ev["tab"][:12], (" ; PANIC " + ev["panmsg"]) if ev["pan"] else "")
    if ev["kind"] == "cons":
        return ("obiconsensus.BuildConsensus(sequences=%s counts=%s, kmer_size=%d, min_cov=0) -> k-mer size used %d, consensus=%s%s"
                % ([x[:80] for x in e["S"]], ev["C"], ev["k0"], ev["kused"], e["cons"][:160],
                   (" ; PANIC " + ev["panmsg"]) if ev["pan"] else ""))
    return ("k=%d sequences=%s counts=%s: Len=%d HasCycle=%d HaviestPath=%d nodes consensus=%s%s"
            % (ev["k"], [x[:80] for x in e["S"]], ev["C"], ev["len"], ev["cyc"], len(ev["path"]), e["cons"][:120],
               (" ; PANIC " + ev["panmsg"]) if ev["pan"] else ""))


HEAP_MODEL = "6g"    # bounded heaps keep several concurrent checks out of the OOM killer
HEAP_TRACE = "8g"


def trace_validate(ctx, trace_path, timeout):
    """ctx.trace_validate with a bounded heap"""
    events = [json.loads(x) for x in open(trace_path) if x.strip()]
    if not events:
        raise vlib.Inconclusive("empty trace %s" % trace_path)
    rej = trace_path + ".rejects"
    if os.path.exists(rej):
        os.remove(rej)
    res = ctx.tlc("KmerTrace", "KmerTrace.cfg", env={"VERIF_TRACE": trace_path, "VERIF_REJECTS": rej},
                  timeout=timeout, heap=HEAP_TRACE)
    if not res.clean:
        raise vlib.Inconclusive("trace specification KmerTrace did not run cleanly:\n%s" % res.tail(60))
    if res.distinct != 2 * len(events):
        raise vlib.Inconclusive("KmerTrace judged %d states for %d events" % (res.distinct, len(events)))
    rejects = vlib.read_cases(rej)
    ctx.traces_validated += len(events)
    return events, rejects


def validate_trace(ctx, trace, timeout):
    events, rejects = trace_validate(ctx, trace, timeout)
    for r in rejects:
        ev = events[r["l"] - 1]
        if r["why"].startswith("harness_"):
            raise vlib.Inconclusive("the recording itself is wrong (%s) on event %d: %s" % (r["why"], r["l"], str(short(ev))[:400]))
        mode = ("sparse/" if ev["sp"] else "plain/") if ev["kind"] == "idx" else ""
        ctx.violation("C19." + r["why"], "%s/%s%s/trace" % (ev["kind"], mode, ev["sc"]),
                      "rejected by KmerTrace (%s): %s" % (r["why"], describe(ev, r["why"])), ev)
    return events, rejects


def main(ctx):
    thorough = ctx.tier == "thorough"
    if ctx.replay:
        blob = json.load(open(ctx.replay))
        case = blob["case"]
        if "sc" in case:                      # a recorded observation: the real code is observed again on the
            one = ctx.path("one.ndjson")      # same input, then TLC judges the new observation
            vlib.write_ndjson(one, [case])
            trace = ctx.path("trace.ndjson")
            ctx.harness(["record", "C19", "--out", trace, "--n", 8, "--opt", "replay=" + one])
            validate_trace(ctx, trace, 900)
        else:
            cases = ctx.path("cases.ndjson")
            vlib.write_ndjson(cases, [case])
            res = ctx.path("res.ndjson")
            # the real code iterates over Go maps: the same scenario is executed many times
            ctx.harness(["replay", "C19", "--cases", cases, "--out", res, "--opt", "repeat=40"])
            ctx.add_results(res)
        return ctx.finish()

    tier = "thorough" if thorough else "quick"
    # M ---------------------------------------------------------------------------------------
    kcases = ctx.path("cases_kmer.ndjson")
    r1 = ctx.tlc_model("KmerCheck", "KmerCheck_%s.cfg" % tier, env={"VERIF_CASES": kcases}, timeout=1500, heap=HEAP_MODEL)
    gcases = ctx.path("cases_graph.ndjson")
    r2 = ctx.tlc_model("DeBruijnCheck", "DeBruijnCheck_%s.cfg" % tier, env={"VERIF_CASES": gcases}, timeout=1500, heap=HEAP_MODEL)
    try:
        c1 = vlib.read_cases(kcases)
        c2 = vlib.read_cases(gcases)
    except ValueError as ex:
        raise vlib.Inconclusive("torn line in the exported cases: %s" % ex)
    # one exporting state per case (each case has a 'todo' and a 'done' state)
    if 2 * len(c1) != r1.distinct or 2 * len(c2) != r2.distinct:
        raise vlib.Inconclusive("exported %d+%d cases for %d+%d states" % (len(c1), len(c2), r1.distinct, r2.distinct))
    ctx.expect_vacuity("exported index cases", len(c1))
    ctx.expect_vacuity("exported graph cases", len(c2))
    um = sum(1 for c in c1 if c["um"] == 1)
    ctx.expect_vacuity("model states where the rolling model without the mask is wrong", um)
    ctx.extra["exported_index_cases"] = len(c1)
    ctx.extra["exported_graph_cases"] = len(c2)
    ctx.extra["model_states_where_missing_mask_is_wrong"] = um
    shapes = collections.Counter("cyclic" if c["cyc"] else ("empty" if not c["nodes"] else "acyclic") for c in c2)
    ctx.extra["model_graph_shapes"] = dict(shapes)
    for need in ("cyclic", "empty", "acyclic"):
        ctx.expect_vacuity("model graphs that are " + need, shapes.get(need, 0))
    # R ---------------------------------------------------------------------------------------
    for path in (kcases, gcases):
        res = path + ".res"
        ctx.harness(["replay", "C19", "--cases", path, "--out", res], timeout=1500)
        ctx.add_results(res)
    for need in NEED_CLASSES:
        ctx.expect_vacuity("class " + need, ctx.classes.get(need, 0))
    # T ---------------------------------------------------------------------------------------
    trace = ctx.path("trace.ndjson")
    n, graphs, maxlen = (3000, 800, 500) if thorough else (150, 64, 200)
    ctx.harness(["record", "C19", "--out", trace, "--n", n, "--opt", "maxlen=%d" % maxlen, "--opt", "graphs=%d" % graphs],
                timeout=900)
    events, rejects = validate_trace(ctx, trace, 1500)
    fam = collections.Counter("%s/%s" % (e["kind"], e["sc"]) for e in events)
    for need in NEED_FAMILIES:
        ctx.expect_vacuity("trace family " + need, fam.get(need, 0))
    g = [e for e in events if e["kind"] == "graph"]
    ctx.expect_vacuity("trace graphs with a cycle", sum(1 for e in g if e["cyc"] == 1))
    ctx.expect_vacuity("trace graphs with a heaviest path of more than 50 nodes", sum(1 for e in g if len(e["path"]) > 50))
    ctx.expect_vacuity("trace index events on full-width words (2k = bits)",
                       sum(1 for e in events if e["kind"] == "idx" and 2 * e["k"] == e["bits"]))
    ctx.expect_vacuity("trace index events with k > 32", sum(1 for e in events if e["kind"] == "idx" and e["k"] > 32))
    cons = [e for e in events if e["kind"] == "cons"]
    ctx.expect_vacuity("BuildConsensus events that returned a consensus", sum(1 for e in cons if e["cons"]))
    ctx.expect_vacuity("BuildConsensus events where the k-mer size had to be increased", sum(1 for e in cons if e["kused"] > e["k0"]))
    ctx.extra["trace_families"] = dict(fam)
    ctx.extra["trace_max_k_graph"] = max(e["k"] for e in g)
    ctx.extra["trace_max_k_index"] = max(e["k"] for e in events if e["kind"] == "idx")
    ctx.extra["trace_max_graph_nodes"] = max(e["len"] for e in g)
    ctx.extra["trace_max_sequence_length"] = max([len(e["s"]) for e in events if "s" in e] + [len(s) for e in g for s in e["S"]])
    for kind in ("graph", "idx"):
        ev = next((e for e in events if e["kind"] == kind and e["sc"] in ("reads", "long")), None)
        if ev:
            ctx.samples.insert(0, {"trace_event": {k: (str(v)[:200]) for k, v in short(ev).items()}})
    ctx.assumptions += [
        "sequences are lower-case IUPAC nucleotide symbols; an ambiguity code stands for each of its bases in the graph "
        "(a k-mer occurs at a position when each of its bases is one the symbol stands for) and interrupts the k-mers of the index",
        "the index is built with an even k in plain mode and an odd k in sparse mode (NewKmerMap adjusts other values), 2k <= word size",
        "4-mer tables are specified on sequences over a c g t u (Encode4mer documents that any other symbol counts as 'a'); counts < 65536",
        "LongestConsensus is called with min_cov = 0 (the trimming of low-coverage ends is outside the property)",
        "'returned unchanged' is stated for a single sequence without repeated k-mer whose graph has no cycle "
        "(TLC shows that distinct k-mers alone allow a cycle, e.g. 'cc' or 'acgca' at k=2; no repeated (k-1)-mer excludes it)",
    ]
    ctx.extra["exhaustive"] = False
    return ctx.finish(rule="M/R: every (sequence, k) of the configured alphabets/lengths for the index x 3 word sizes x 2 buffer states "
                           "and every (sequence tuple, counts, k) for the graph x both push orders (replayed_model_cases counts the "
                           "scenario executions compared); T: one event = one observation of the real code on a seeded random input")

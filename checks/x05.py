"""X05 - the paired-end commands end to end: obipairing, obitagpcr, obicomplement (extension check).

Statements: extra/X05.md.  Specification: spec/L3_command/PairedCmd.tla (compositions of PEAlign.tla, Demux.tla,
SeqVal.tla), bounded model PairedCmdMC.tla, trace specification spec/trace/PairedCmdTrace.tla.

M: TLC on PairedCmdMC: tiny pairs that can only be joined (min-overlap above the read lengths) built from a tiny
   sample sheet; theorems of the specification itself (exchanging the two files flips the direction and keeps the
   sample; a re-oriented pair submitted again is found in the forward direction with the same sample; join length);
   every case exported with the expected output.
R: the real binaries obipairing / obitagpcr are run on every exported case, output compared with the exported one.
T: the binaries obipairing, obitagpcr, obicomplement run on seeded random files (reads up to 110 bases, every
   overlap geometry, errors, several --max-cpu / --batch-size and option values, files of different lengths,
   random sample sheets); the harness calls the alignment kernel on every pair with the options of the command
   line and logs its answer; PairedCmdTrace re-evaluates the specification on every event.
"""
import collections
import json
import os
import vlib

BINS = ["obipairing", "obitagpcr", "obicomplement"]


def describe(ev):
    s = lambda x: "".join(x) if isinstance(x, list) else str(x)
    opts = ("--max-cpu %d --batch-size %d --min-overlap %d --min-identity %.3f --gap-penality %.1f --penality-scale %.1f --delta %d%s%s%s"
            % (ev["workers"], ev["batch"], ev["minov"], ev["idn"] / max(ev["idd"], 1), ev["gap10"] / 10, ev["scale10"] / 10, ev["delta"],
               "" if ev["fast"] else " --exact-mode", "" if ev["rel"] else " --fast-absolute", "" if ev["stat"] else " --without-stat"))
    if ev["kind"] == "run":
        return ("%s %s on %d forward / %d reverse records: exit status %d, output ids %s%s%s %s"
                % (ev["cmd"], opts, ev["nf"], ev["nr"], ev["rc"], ev["r1"][:40],
                   (" R2 " + str(ev["r2"][:40])) if ev["cmd"] == "obitagpcr" else "",
                   (" unidentified " + str(ev["u1"][:40])) if ev["cmd"] == "obitagpcr" else "", ev["note"][:300]))
    if ev["kind"] == "comp":
        i, o = ev["cin"], ev["cout"]
        return ("obicomplement record %s seq=%s qual=%s pairing_mismatches=%s -> present=%d id=%s seq=%s qual=%s pairing_mismatches=%s k=%d"
                % (i["id"], s(i["seq"]), i["qual"][:20], i["mm"], o["present"], o["id"], s(o["seq"]), o["qual"][:20], o["mm"], o["kann"]))
    head = ("%s %s pair %d of run %d: forward %s=%s reverse=%s; kernel on (forward, rc(reverse)): left=%d score=%d path=%s"
            % (ev["cmd"], opts, ev["i"], ev["run"], ev["fid"], s(ev["f"]), s(ev["r"]), ev["k"]["left"], ev["k"]["score"], ev["k"]["path"]))
    if ev["kind"] == "pair":
        o = ev["out"]
        return head + ("; output record: present=%d id=%s seq=%s mode=%s score=%d ali_length=%d seq_ab_match=%d score_norm=%d/1000 ali_dir=%s "
                       "seq_a_single=%d seq_b_single=%d fast=(%d,%d,%d) pairing_mismatches=%s k=%d other keys=%s"
                       % (o["present"], o["id"], s(o["seq"]), o["mode"], o["score"], o["ali"], o["match"], o["norm"], o["dir"], o["sas"],
                          o["sbs"], o["fc"], o["over"], o["fs"], o["mm"], o["kann"], o["extra"]))
    a = ev["o1"]["ann"]
    return head + ("; --reorientate=%d -u=%d --keep-errors=%d; found in %s: R1 id=%s seq=%s, R2 seq=%s; annotations: sample=%s direction=%s "
                   "error=%s (%s) tags=%s/%s mismatches=%d/%d; sheet: %s"
                   % (ev["reorient"], ev["unid"], ev["keeperr"], ev["where"], ev["o1"]["id"], s(ev["o1"]["seq"]), s(ev["o2"]["seq"]),
                      a["smp"], a["dir"], a["ek"], a["emsg"], a["ft"], a["rt"], a["fe"], a["re"], ev.get("sheet_text", "").replace("\n", "|")))


def validate(ctx, trace, timeout):
    tags = trace + ".tags"
    events, rejects = ctx.trace_validate("PairedCmdTrace", "PairedCmdTrace.cfg", trace, timeout=timeout, env={"VERIF_TAGS": tags}, heap="6g")
    tagged = vlib.read_cases(tags)
    if len(tagged) != len(events):
        raise vlib.Inconclusive("TLC judged %d of %d events" % (len(tagged), len(events)))
    for r in rejects:
        ev = events[r["l"] - 1]
        if r["why"] == "kernel.input" or r["why"] == "kernel.path":
            # the harness' own call of the kernel / of ReverseComplement (properties C07, C08) is not what X05 decides
            raise vlib.Inconclusive("the kernel call of the harness is not usable (%s): %s" % (r["why"], describe(ev)[:600]))
        cls = "%s/%s" % (ev["cmd"], ev["cls"])
        if r["why"] in ("run.unequal_files_accepted", "run.unequal_files_hang"):
            cls = "%s/%s" % (ev["cmd"], "forward-longer" if ev["nf"] > ev["nr"] else "reverse-longer")
        ctx.violation("X05." + r["why"], cls, "rejected by PairedCmdTrace (%s): %s" % (r["why"], describe(ev)[:1800]), ev)
    return events, rejects, tagged


def main(ctx):
    thorough = ctx.tier == "thorough"
    bindir = ctx.build_cmds(BINS)
    work = ctx.path("work")
    if ctx.replay:
        blob = json.load(open(ctx.replay))
        case = blob["case"]
        if "kind" in case and case["kind"] in ("run", "pair", "tag", "comp") and "workers" in case:
            one = ctx.path("one.json")
            json.dump(case, open(one, "w"))
            trace = ctx.path("trace.ndjson")
            ctx.harness(["record", "X05", "--out", trace, "--n", 1, "--opt", "replay=" + one, "--opt", "bindir=" + bindir, "--opt", "work=" + work])
            validate(ctx, trace, 900)
        else:
            cases = ctx.path("cases.ndjson")
            vlib.write_ndjson(cases, [case])
            res = ctx.path("res.ndjson")
            ctx.harness(["replay", "X05", "--cases", cases, "--out", res, "--opt", "bindir=" + bindir, "--opt", "work=" + work])
            ctx.add_results(res)
        return ctx.finish()
    # M ---------------------------------------------------------------------------------------------------
    cases = ctx.path("cases.ndjson")
    r = ctx.tlc_model("PairedCmdMC", "PairedCmdMC_%s.cfg" % ("thorough" if thorough else "quick"), env={"VERIF_CASES": cases}, timeout=1500)
    try:
        cs = vlib.read_cases(cases)
    except ValueError as ex:
        raise vlib.Inconclusive("torn line in the exported cases: %s" % ex)
    kinds = collections.Counter(c["kind"] for c in cs)
    for k in ("join", "tagjoin"):
        ctx.expect_vacuity("model cases of kind " + k, kinds.get(k, 0))
    tk = collections.Counter(c["tkind"] + ("/" + c["dir"] if c["tkind"] == "assigned" else "") for c in cs if c["kind"] == "tagjoin")
    for need in ("assigned/forward", "assigned/reverse", "tagpair", "nobarcode"):
        ctx.expect_vacuity("model obitagpcr cases " + need, tk.get(need, 0))
    ctx.extra["model_cases"] = dict(kinds)
    ctx.extra["model_tag_outcomes"] = dict(tk)
    # R ---------------------------------------------------------------------------------------------------
    rare = [c for c in cs if c["kind"] == "tagjoin" and c["tkind"] in ("assigned", "multi")]
    todo = cs if thorough else rare + vlib.sample(ctx.rng, [c for c in cs if c not in rare], 250)
    rc = ctx.path("replay_cases.ndjson")
    vlib.write_ndjson(rc, todo)
    res = ctx.path("res.ndjson")
    ctx.harness(["replay", "X05", "--cases", rc, "--out", res, "--opt", "bindir=" + bindir, "--opt", "work=" + work + "_r"], timeout=1500)
    ctx.add_results(res)
    if not ctx.violations:
        for need in ("tagjoin/assigned/forward", "tagjoin/assigned/reverse", "tagjoin/swapped", "tagjoin/tagpair", "tagjoin/nobarcode"):
            ctx.expect_vacuity("replayed class " + need, ctx.classes.get(need, 0))
        ctx.expect_vacuity("replayed join cases", sum(v for k, v in ctx.classes.items() if k.startswith("join/")))
    # T ---------------------------------------------------------------------------------------------------
    events, rejects, tagged = [], [], []
    chunks, n = (12, 150) if thorough else (1, 40)
    for k in range(chunks):
        trace = ctx.path("trace%d.ndjson" % k)
        ctx.harness(["record", "X05", "--out", trace, "--n", n, "--opt", "bindir=" + bindir, "--opt", "work=%s_t%d" % (work, k)],
                    timeout=1500, env={"VERIF_SEED": ctx.seed + 7919 * k})
        e, rj, t = validate(ctx, trace, 3000)
        events, rejects, tagged = events + e, rejects + rj, tagged + t
    tg = collections.Counter(t for x in tagged for t in x["tags"])
    fam = collections.Counter("%s/%s" % (e["kind"], e["cls"]) for e in events)
    if not rejects and not ctx.violations:
        for need in ("pair/alignment", "pair/join", "pair/mismatches", "pair/right", "pair/without-stat", "pair/exact",
                     "tag/assigned", "tag/tagpair", "tag/nobarcode", "tag/dir-forward", "tag/dir-reverse", "tag/swapped",
                     "tag/where-kept", "tag/where-unid", "tag/where-none", "tag/alignment", "tag/join",
                     "comp/record", "comp/mismatches", "comp/fasta", "comp/fastq",
                     "run/obipairing", "run/obitagpcr", "run/obicomplement", "run/unequal", "run/parallel", "run/several-batches"):
            ctx.expect_vacuity("trace clause " + need, tg.get(need, 0))
    ctx.extra["trace_clauses_exercised"] = dict(tg)
    ctx.extra["trace_event_classes"] = dict(fam)
    ctx.extra["trace_events_by_kind"] = dict(collections.Counter(e["kind"] for e in events))
    ctx.extra["command_runs"] = sum(1 for e in events if e["kind"] == "run")
    ev = next((e for e in events if e["kind"] == "pair" and len(e["f"]) < 45), None)
    if ev:
        ctx.samples.insert(0, {"trace_event": describe(ev)[:1200]})
    ctx.assumptions += [
        "the alignment kernel (obialign.PEAlign) is an input of the statements: the harness calls it on (forward read, reverse-"
        "complemented reverse read) with the options of the command line and a fresh arena; its answer is decided by C08, not here",
        "reads are lower-case IUPAC DNA with Phred qualities 0..41 in FASTQ files with JSON headers; identifiers are unique in a file",
        "sample sheets: CSV format, tags on both primers, strict or hamming tag matching, no primer indels, primers of 16-21 bases",
        "pairs whose consensus has tied priming sites (Demux.tla 'amb') are accepted whatever obitagpcr answers",
        "the quality of a consensus column where the reads disagree is only required to lie in 0..90 (as in C08)",
        "input annotations: the consensus of an aligned pair is a new record without the annotations of the reads, a joined pair "
        "keeps those of the forward read; obitagpcr keeps the annotations of both reads (described behaviour, see extra/X05.md)",
    ]
    ctx.extra["exhaustive"] = False
    return ctx.finish(rule="M: one TLC state pair per model case; R: replayed_model_cases counts binary runs compared with the exported "
                           "expected records; T: one event = one command run, or one pair / record of a run with its output record(s)")

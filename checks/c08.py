"""C08 - Paired-end assembly: valid path, optimal score, correct consensus.

M: TLC on spec/L0_kernel/PEAlignCheck.tla (definitions: PEAlign.tla).  On every small scoring (all integer
   matrices of a few cells, two-class reads with 2x2 tables) the row-fold dynamic program equals "max over
   all step sequences" in both end-gap-free modes, the counting DP equals the number of optimal sequences,
   path encoding/decoding/scoring laws hold, swapping the reads swaps left and right; on tiny read pairs
   scored with the IMPLEMENTATION'S own integer tables (hook H2, dumped by the harness and read by TLC as a
   constant) the laws of consensus/statistics hold and the set of optimal answers is exported; on error-free
   read pairs of small fragments the fast-mode lemma holds (true offset strict maximiser of the 4-mer vote
   => every 4-mer of the overlap is on that diagonal, the vote elects it, the true path rebuilds the
   fragment) and the vote is exported.
R: every exported case on the real PEAlign / BuildQualityConsensus / AssemblePESequences / FastShiftFourMer
   (fresh and reused arena, inplace or not): answer in the exported set.
T: seeded random read pairs (1-300 bases, every overlap geometry, qualities 0-93, IUPAC, errors, fast/exact,
   relative/absolute vote, delta, gap, scale, thresholds, arena reused from pair to pair) with the
   implementation's own scores for the pair; PEAlignTrace.tla re-evaluates PEAlign.tla on every event.
"""
import collections
import json
import vlib

TIERS = {
    "quick": dict(classes="a40,c40,a10,c10", cfgs="20:10,5:10", n=600, chunks=1, maxlen=300),
    "thorough": dict(classes="a40,c40,a10,c10,n30,g0", cfgs="20:10,5:10,20:5", n=5000, chunks=3, maxlen=300),
}

NEED_R = (
    "pair/unique/reused/score", "pair/unique/fresh/path", "pair/ties/reused/path", "pair/unique/reused/consensus",
    "pair/unique/reused/alignment", "pair/unique/reused/join", "pair/ties/fresh/alignment",
    "fast/left/strict/rel=1/assemble", "fast/left/strict/rel=0/assemble", "fast/right/strict/rel=1/assemble",
    "fast/right/strict/rel=0/vote", "fast/left/notstrict/rel=0/vote", "fast/right/notstrict/rel=1/assemble",
)
NEED_FAMILIES = ("perfect_left", "perfect_right", "left_errors", "right_errors", "b_inside_a", "a_inside_b",
                 "offset0", "short_overlap", "unrelated", "tiny", "repeats", "iupac")
NEED_TAGS = ("dp", "aln", "join", "vote", "perfect_unique", "perfect_strict", "true_path")


def describe(ev):
    return ("a=%s qa=%s b=%s qb=%s fast=%d rel=%d delta=%d gap=%.1f scale=%.1f min-overlap=%d min-identity=%d/%d arena=%s -> "
            "left=%d score=%d path=%s fastcount=%d over=%d; consensus=%s; record=%s mode=%d ali_length=%d seq_a_single=%d "
            "seq_b_single=%d%s%s" % (
                "".join(ev["a"]), short(ev["qa"]), "".join(ev["b"]), short(ev["qb"]), ev["fast"], ev["rel"], ev["delta"],
                ev["gap10"] / 10, ev["scale10"] / 10, ev["minov"], ev["idn"], ev["idd"], ev["arena"],
                ev["left"], ev["score"], ev["path"], ev["fc"], ev["over"], "".join(ev["cs"]), "".join(ev["os"]),
                ev["mode"], ev["ali"], ev["sas"], ev["sbs"],
                ("; fragment=" + "".join(ev["frag"])) if ev["perfect"] else "",
                ("; PANIC " + ev["panics"]) if ev["panic"] else ""))


def short(q):
    return str(q) if len(q) <= 24 else "[%d values %s..]" % (len(q), q[:8])


def validate_trace(ctx, trace, cfg, timeout):
    tags = trace + ".tags"
    events, rejects = ctx.trace_validate("PEAlignTrace", cfg, trace, timeout=timeout, env={"VERIF_TAGS": tags})
    tagged = vlib.read_cases(tags)
    if len(tagged) != len(events):
        raise vlib.Inconclusive("TLC judged %d of %d events" % (len(tagged), len(events)))
    for r in rejects:
        ev = events[r["l"] - 1]
        if r["why"] == "event.malformed":
            raise vlib.Inconclusive("harness logged an inconsistent event (l=%d)" % r["l"])
        ctx.violation("C08." + r["why"], "%s/%s" % (ev["sc"], "fast" if ev["fast"] else "exact"),
                      "rejected by PEAlignTrace (%s): %s" % (r["why"], describe(ev)[:1500]), ev)
    return events, rejects, tagged


def main(ctx):
    thorough = ctx.tier == "thorough"
    tier = "thorough" if thorough else "quick"
    P = TIERS[tier]
    tcfg = "PEAlignTrace_thorough.cfg" if thorough else "PEAlignTrace.cfg"
    if ctx.replay:
        blob = json.load(open(ctx.replay))
        case = blob["case"]
        if case.get("k") == "pe":             # a recorded pair: the real code is called again, TLC judges again
            one = ctx.path("one.ndjson")
            vlib.write_ndjson(one, [case])
            trace = ctx.path("trace.ndjson")
            ctx.harness(["record", "C08", "--out", trace, "--n", 1, "--opt", "replay=" + one])
            validate_trace(ctx, trace, "PEAlignTrace_thorough.cfg", 900)
        else:
            cases = ctx.path("cases.ndjson")
            vlib.write_ndjson(cases, [case])
            res = ctx.path("res.ndjson")
            ctx.harness(["replay", "C08", "--cases", cases, "--out", res])
            ctx.add_results(res)
        return ctx.finish()

    # the implementation's own integer scores for the classes of the tiny pairs (hook H2) ------------------
    table = ctx.path("table.ndjson")
    ctx.harness(["record", "C08", "--out", table, "--opt", "dump=table", "--opt", "classes=" + P["classes"],
                 "--opt", "cfgs=" + P["cfgs"]])
    tabs = [json.loads(x) for x in open(table)]
    ctx.expect_vacuity("dumped score tables", len(tabs))
    ctx.extra["score_tables_from_hook"] = [{"classes": P["classes"], "gap": t["gap10"] / 10, "scale": t["scale10"] / 10,
                                            "gap_penalty": t["gapp"], "tab": t["tab"]} for t in tabs][:2]
    # shape of the full 94 x 94 tables (symmetric, sign, monotone in the qualities): ScoreGridTrace.tla
    grid = ctx.path("grid.ndjson")
    ctx.harness(["record", "C08", "--out", grid, "--opt", "dump=grid", "--opt", "cfgs=" + P["cfgs"]])
    gev, grej = ctx.trace_validate("ScoreGridTrace", "ScoreGridTrace.cfg", grid, timeout=600)
    ctx.expect_vacuity("score grids", len(gev))
    for r in grej:
        g = gev[r["l"] - 1]
        if r["why"] == "event.malformed":
            raise vlib.Inconclusive("harness logged a malformed grid (l=%d)" % r["l"])
        bad = [(a, b, g["grid"][a][b]) for a in range(2, 94) for b in range(2, 94)
               if (g["kind"] == "match") != (g["grid"][a][b] > 0) or g["grid"][a][b] != g["grid"][b][a]
               or (a < 93 and ((g["grid"][a + 1][b] < g["grid"][a][b]) if g["kind"] == "match" else (g["grid"][a + 1][b] > g["grid"][a][b])))][:6]
        ctx.violation("C08." + r["why"], "grid/%s/scale=%.1f" % (g["kind"], g["scale10"] / 10),
                      "substitution scores of %s facing %s (scale %.1f) rejected by ScoreGridTrace (%s): first offending "
                      "(quality a, quality b, score) %s" % (g["x"], g["y"], g["scale10"] / 10, r["why"], bad),
                      {k: v for k, v in g.items() if k != "grid"})
    ctx.extra["score_grids_checked"] = len(gev)
    # M ---------------------------------------------------------------------------------------------------
    cases = ctx.path("cases.ndjson")
    r = ctx.tlc_model("PEAlignCheck", "PEAlignCheck_%s.cfg" % tier, env={"VERIF_CASES": cases, "VERIF_TABLE": table},
                      timeout=2400)
    try:
        cs = vlib.read_cases(cases)
    except ValueError as ex:
        raise vlib.Inconclusive("torn line in the exported cases: %s" % ex)
    if 2 * len(cs) != r.distinct:   # every case has a 'todo' and a 'done' state; every done state exports one line
        raise vlib.Inconclusive("exported %d cases for %d states" % (len(cs), r.distinct))
    kinds = collections.Counter(c["kind"] for c in cs)
    for k in ("opt", "pair", "fast"):
        ctx.expect_vacuity("model cases of kind " + k, kinds.get(k, 0))
    ctx.extra["model_cases"] = dict(kinds)
    ctx.extra["model_pair_cases_with_ties"] = sum(1 for c in cs if c["kind"] == "pair" and len(c["allowed"]) > 1)
    ctx.extra["model_pair_cases_too_many_ties"] = sum(1 for c in cs if c["kind"] == "pair" and c["many"] == 1)
    ctx.extra["model_fast_cases_strict_maximiser"] = sum(1 for c in cs if c["kind"] == "fast" and c["strict"] == 1)
    # R ---------------------------------------------------------------------------------------------------
    todo = [c for c in cs if c["kind"] != "opt"]
    rc = ctx.path("replay_cases.ndjson")
    vlib.write_ndjson(rc, todo)
    res = ctx.path("res.ndjson")
    ctx.harness(["replay", "C08", "--cases", rc, "--out", res], timeout=1500)
    ctx.add_results(res)
    for need in NEED_R:
        ctx.expect_vacuity("class " + need, ctx.classes.get(need, 0))
    # T ---------------------------------------------------------------------------------------------------
    events, rejects, tagged = [], [], []
    for k in range(P["chunks"]):        # one TLC run per chunk (the trace is a constant of the run)
        trace = ctx.path("trace%d.ndjson" % k)
        ctx.harness(["record", "C08", "--out", trace, "--n", P["n"], "--opt", "maxlen=%d" % P["maxlen"]], timeout=900,
                    env={"VERIF_SEED": ctx.seed + 7919 * k})
        e, r, t = validate_trace(ctx, trace, tcfg, 2400)
        events, rejects, tagged = events + e, rejects + r, tagged + t
    fam = collections.Counter(e["sc"] for e in events)
    for need in NEED_FAMILIES:
        ctx.expect_vacuity("trace family " + need, fam.get(need, 0))
    tg = collections.Counter(t for x in tagged for t in x["tags"])
    if not rejects:     # clauses behind a rejected clause are not reached: only demand them on a clean trace
        for need in NEED_TAGS:
            ctx.expect_vacuity("trace clause " + need, tg.get(need, 0))
    ctx.expect_vacuity("fast-mode events", sum(1 for e in events if e["fast"] == 1))
    ctx.expect_vacuity("exact-mode events", sum(1 for e in events if e["fast"] == 0))
    ctx.expect_vacuity("events with IUPAC codes", sum(1 for e in events if any(c not in "acgt" for c in e["a"] + e["b"])))
    ctx.expect_vacuity("events on a fresh arena", sum(1 for e in events if e["arena"] == "fresh"))
    ctx.expect_vacuity("events with quality 0", sum(1 for e in events if 0 in e["qa"] or 0 in e["qb"]))
    ctx.expect_vacuity("events with quality 93", sum(1 for e in events if 93 in e["qa"] or 93 in e["qb"]))
    ctx.extra["trace_families"] = dict(fam)
    ctx.extra["trace_clauses_exercised"] = dict(tg)
    ctx.extra["trace_max_len"] = max(max(len(e["a"]), len(e["b"])) for e in events)
    ctx.extra["trace_fast_events"] = sum(1 for e in events if e["fast"] == 1)
    ctx.extra["trace_dp_cells_recomputed"] = sum(2 * len(e["a"]) * len(e["b"]) for e, t in zip(events, tagged) if "dp" in t["tags"])
    ev = next((e for e in events if len(e["a"]) < 40 and len(e["b"]) < 40 and e["mode"] == 1), events[0])
    ctx.samples.insert(0, {"trace_event": {k: ("".join(v) if k in ("a", "b", "cs", "os", "frag") else v)
                                           for k, v in ev.items() if k not in ("tab", "ca", "cb", "csa", "csb", "cqa", "cqb")}})
    ctx.assumptions += [
        "reads are lower-case IUPAC DNA symbols (acgt ryswkm bdhv n), 1..300 bases, qualities 0..93; 'u', gaps and other bytes "
        "are outside the specification",
        "the substitution scores and the gap penalty are parameters of the specification: the implementation's own integer "
        "values (hook H2) are used; of the log-odds tables only the shape is decided (ScoreGridTrace: symmetric, identical bases "
        "> 0, different bases <= 0, monotone in both qualities, for all qualities 2..93), not the numeric values",
        "the quality of a consensus column where the two reads disagree is only required to lie in 0..90; a base of quality 0 "
        "does not count as a match (seq_ab_match, identity)",
        "exact-mode optimality is recomputed by the DP for pairs with la*lb <= DPCap (trace cfg); beyond it the score is "
        "only compared with the score along the returned path and, for error-free pairs, with the score of the true path",
        "reconstruction of the fragment is demanded in exact mode when the true path is the unique optimum (counting DP) and "
        "in fast mode when the true offset is the strict maximiser of the 4-mer vote",
    ]
    ctx.extra["exhaustive"] = False
    return ctx.finish(rule="M: one TLC state pair per model case (opt/pair/fast); R: replayed_model_cases counts answers of "
                           "the real code compared with the exported sets; T: one event = one read pair through PEAlign, "
                           "BuildQualityConsensus and AssemblePESequences")

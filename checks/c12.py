"""C12 - demultiplexing assigns the declared sample, the exact barcode, on either strand.

M: TLC on spec/L3_command/DemuxMC.tla (operators of Demux.tla on top of Apat.tla): sample sheets (two
   markers, per-primer budgets and spacers, seven tag designs incl. asymmetric / absent / combinatorial
   tags and tags one substitution away from a tie, three matching modes, primer indel flag) x read
   scenarios (both orientations, 0..budget+1 primer mismatches at every position, tag substitutions /
   indels, omitted priming sites, primer dimers, cross-marker pairs, two amplicons).  The specification's
   own theorems are invariants: a read built from declared pieces gives back exactly those pieces and the
   declared sample (PlantedThm), Demux(rc(read)) = Flip(Demux(read)) (SymmetryThm), the code-shaped
   primer-hit scan finds the amplicons of the property-level reading (ScanThm), the safety predicate
   accepts the specification's answers and rejects a wrong sample / a displaced barcode (SafetyThm),
   strict identification implies hamming and indel identification (ModeThm).  Every case is exported with
   the expected records of both strands.
R: every sheet is written in both file formats and read by the real ReadNGSFilter; every read and its
   reverse complement go through NGSLibrary.ExtractMultiBarcode and through the obimultiplex binary
   (-t sheet -u file; old format with -e / --with-indels; one run per sheet in which no read can be
   assigned); the records are compared field by field with the exported ones.
T: seeded random sheets / scenarios beyond the model (primers 18-25 with IUPAC codes, tags 6-8, random
   barcodes and flanks, primer indels, tag delimiters and rescue) are run on both strands and logged with
   the pieces they were built from; DemuxTrace.tla rebuilds the read, re-evaluates the specification and
   judges the safety clause on the logged read, records and sheet only.  Smoke test on real data: the first
   read pairs of sample/wolf_[FR].fastq.gz (assembled by obipairing) x sample/wolf_diet_ngsfilter.txt through
   the library and the binary, validated the same way (events "W").
"""
import json
import os
import vlib

CFG = {"quick": "DemuxMC_quick.cfg", "thorough": "DemuxMC_thorough.cfg"}


def load_own_findings(ctx):
    p = os.path.join(vlib.VERIF, "findings_C12.json")
    if os.path.exists(p):
        have = {k.get("id") for k in ctx.findings.entries}
        for k in json.load(open(p)):
            if k.get("property") == "C12" and k.get("id") not in have:
                ctx.findings.entries.append(k)


def count_lines(path):
    n = 0
    with open(path, "rb") as f:
        for _ in f:
            n += 1
    return n


def letters(codes):
    return "".join("acgtn"[x] for x in codes)


def ev_class(ev):
    parts = [ev["src"], ev["fmt"], "mode-" + ev["sheet"]["mode"]]
    if ev["sheet"]["indel"] == 1:
        parts.append("indel-primers")
    if ev["sheet"]["delim"] == 1:
        parts.append("delimiter")
    return "/".join(parts)


def describe(ev):
    def outs(o):
        return [(x["mk"], x["dir"], letters(x["bc"])[:30], letters(x["ft"]), letters(x["rt"]), x["smp"], x["err"]) for x in o]
    return "read %s (%s): out=%s none=%d | rc: out=%s none=%d %s" % (
        letters(ev["read"])[:160], ev["cls"], outs(ev["out"]), ev["none"], outs(ev["outrc"]), ev["nonerc"], ev["fault"][:300])


def validate_events(ctx, path, timeout):
    events, rejects = ctx.trace_validate("DemuxTrace", "DemuxTrace.cfg", path, timeout=timeout, heap="6g")
    broken = []
    for r in rejects:
        ev = events[r["l"] - 1]
        why = r["why"]
        if why.startswith("harness.") or why.startswith("spec."):
            broken.append("%s on event %d: %s" % (why, r["l"], describe(ev)[:400]))
            continue
        ctx.violation("C12.trace." + why, ev_class(ev), "rejected by DemuxTrace (%s): %s" % (why, describe(ev)[:700]), ev)
    if broken:
        raise vlib.Inconclusive("driver / specification inconsistency (not a verdict):\n" + "\n".join(broken[:5]))
    return events, rejects


def wolf_events(ctx, bindir, npairs):
    """Smoke test on the repository's real data: the first read pairs of sample/wolf_[FR].fastq.gz are assembled
    by obipairing (only to get full-length amplicons), demultiplexed with sample/wolf_diet_ngsfilter.txt through
    the library and the binary on both strands, and logged as events (src "W") for DemuxTrace."""
    import gzip
    sdir = os.path.join(vlib.REPO, "sample")
    sheet = os.path.join(sdir, "wolf_diet_ngsfilter.txt")
    out = ctx.path("wolf.ndjson")
    if not all(os.path.exists(os.path.join(sdir, f)) for f in ("wolf_F.fastq.gz", "wolf_R.fastq.gz", "wolf_diet_ngsfilter.txt")):
        ctx.assumptions.append("sample/wolf_* not found: smoke test on real data skipped")
        return out
    for side in "FR":
        with gzip.open(os.path.join(sdir, "wolf_%s.fastq.gz" % side), "rt") as f, open(ctx.path("wolf_%s.fastq" % side), "w") as g:
            for i, line in enumerate(f):
                if i >= 4 * npairs:
                    break
                g.write(line)
    paired = ctx.path("wolf_paired.fastq")
    r = ctx.run_many([{"argv": [os.path.join(bindir, "obipairing"), "-F", ctx.path("wolf_F.fastq"), "-R", ctx.path("wolf_R.fastq"),
                                "--no-progressbar", "--max-cpu", "4"], "timeout": 600}])[0]
    if r["rc"] != 0 or not r["out"].strip():
        raise vlib.Inconclusive("obipairing could not assemble the wolf sample reads (input of the smoke test): rc=%s %s" % (r["rc"], r["err"][-300:]))
    open(paired, "wb").write(r["out"])
    ctx.harness(["record", "C12W", "--out", out, "--n", npairs, "--opt", "sheet=" + sheet, "--opt", "reads=" + paired,
                 "--opt", "bin=" + os.path.join(bindir, "obimultiplex"), "--opt", "work=" + ctx.path("work")], timeout=900)
    return out


def main(ctx):
    thorough = ctx.tier == "thorough"
    load_own_findings(ctx)
    bindir = ctx.build_cmds(["obimultiplex", "obipairing"])
    binpath = os.path.join(bindir, "obimultiplex")
    if ctx.replay:
        blob = json.load(open(ctx.replay))
        case = blob["case"]
        cases = ctx.path("cases.ndjson")
        res = ctx.path("res.ndjson")
        if case.get("k") == "demux":      # an event rejected by the trace specification: run it again, judge again
            vlib.write_ndjson(cases, [case])
            evs = ctx.path("events.ndjson")
            ctx.harness(["replay", "C12", "--cases", cases, "--out", evs, "--opt", "mode=event"])
            validate_events(ctx, evs, 600)
        else:
            vlib.write_ndjson(cases, [case["sheetline"], case["line"]])
            ctx.harness(["replay", "C12", "--cases", cases, "--out", res, "--opt", "bin=" + binpath,
                         "--opt", "work=" + ctx.path("work")])
            ctx.add_results(res)
        return ctx.finish()

    # M ---------------------------------------------------------------------------------------
    cases = ctx.path("cases.ndjson")
    r = ctx.tlc_model("DemuxMC", CFG["thorough" if thorough else "quick"],
                      env={"VERIF_CASES": cases, "VERIF_SEED": str(ctx.seed)}, timeout=3000 if thorough else 600, heap="6g")
    n = count_lines(cases) if os.path.exists(cases) else 0
    if n == 0 or 2 * n != r.distinct:
        raise vlib.Inconclusive("%d exported lines for %d states (torn or missing export)" % (n, r.distinct))
    allc = vlib.read_cases(cases)
    nsheets = sum(1 for c in allc if c["k"] == "sheet")
    ncases = n - nsheets
    mcls = {}
    for c in allc:
        if c["k"] != "case":
            continue
        amb = c["amb"] == 1 or c["ambrc"] == 1
        for key in ("M:" + c["cls"], "M:ambiguous" if amb else "M:unambiguous", "M:plantable" if c["pl"] == 1 and not amb else None,
                    "M:two-records" if len(c["exp"]) == 2 else None, "M:no-record" if len(c["exp"]) == 0 else None,
                    "M:unassigned-record" if any(o["smp"] == "" for o in c["exp"]) else None,
                    "M:assigned-record" if any(o["smp"] != "" for o in c["exp"]) else None):
            if key:
                mcls[key] = mcls.get(key, 0) + 1
    ctx.extra["exported_sheets"] = nsheets
    ctx.extra["exported_cases"] = ncases
    for need in ("M:base", "M:mism", "M:tagedit", "M:partial", "M:dimer", "M:cross", "M:nosite", "M:chimera", "M:chimera-partial", "M:interleaved",
                 "M:unambiguous", "M:plantable", "M:two-records", "M:no-record", "M:unassigned-record", "M:assigned-record"):
        ctx.expect_vacuity("model class " + need, mcls.get(need, 0))
    if mcls.get("M:ambiguous", 0) * 5 > ncases:
        raise vlib.Inconclusive("more than 20%% of the model's reads are ambiguous (%d of %d)" % (mcls.get("M:ambiguous", 0), ncases))
    ctx.classes.update(mcls)
    # R ---------------------------------------------------------------------------------------
    res = ctx.path("res.ndjson")
    rev = ctx.path("revents.ndjson")
    ctx.harness(["replay", "C12", "--cases", cases, "--out", res, "--opt", "bin=" + binpath, "--opt", "work=" + ctx.path("work"),
                 "--opt", "events=" + rev, "--opt", "evrate=%d" % (25 if thorough else 80)], timeout=3000)
    summ = ctx.add_results(res)
    vac = []
    for need in ("sheet-read/csv", "sheet-read/old", "binary-run/csv", "binary-run/old", "lib-csv/base", "lib-old/base", "bin-csv/base",
                 "bin-old/base", "bin-csv-unassigned/partial", "lib-csv/tagedit", "lib-csv/chimera", "lib-csv/mism", "bin-csv/chimera",
                 "assigned/forward", "assigned/reverse", "flagged-amplicon", "flagged-read", "two-amplicons",
                 "mode/strict", "mode/hamming", "mode/indel"):
        vac.append(("replay class " + need, ctx.classes.get(need, 0)))
    vac.append(("binary run with -e", sum(v for k, v in ctx.classes.items() if k.startswith("binary-flags/-e"))))
    # T ---------------------------------------------------------------------------------------
    trace = ctx.path("trace.ndjson")
    ctx.harness(["record", "C12", "--out", trace, "--n", 2400 if thorough else 200, "--opt", "sheets=%d" % (160 if thorough else 40)],
                timeout=900)
    wolf = wolf_events(ctx, bindir, 1500 if thorough else 60)
    allev = ctx.path("events.ndjson")
    with open(allev, "wb") as out:
        for p in (rev, trace, wolf):
            if os.path.exists(p):
                with open(p, "rb") as f:
                    for line in f:
                        out.write(line)
    events, rejects = validate_events(ctx, allev, 3000 if thorough else 600)
    tcls = {}
    for ev in events:
        if ev["src"] == "W":
            k = "W:" + ev["cls"] + ("/assigned" if any(o["smp"] for o in ev["out"]) else "/flagged")
            tcls[k] = tcls.get(k, 0) + 1
            continue
        if ev["src"] != "T":
            tcls["R-events"] = tcls.get("R-events", 0) + 1
            continue
        for part in ev["cls"].split("/"):
            tcls["T:" + part] = tcls.get("T:" + part, 0) + 1
        tcls["T:fmt-" + ev["fmt"]] = tcls.get("T:fmt-" + ev["fmt"], 0) + 1
        if any(o["smp"] for o in ev["out"]):
            tcls["T:assigned"] = tcls.get("T:assigned", 0) + 1
            if ev["sheet"]["delim"] == 1:
                tcls["T:assigned-delimiter"] = tcls.get("T:assigned-delimiter", 0) + 1
        if any(o["smp"] == "" for o in ev["out"]):
            tcls["T:flagged-amplicon"] = tcls.get("T:flagged-amplicon", 0) + 1
        if len(ev["out"]) == 2:
            tcls["T:two-records"] = tcls.get("T:two-records", 0) + 1
        if ev["none"] == 1:
            tcls["T:flagged-read"] = tcls.get("T:flagged-read", 0) + 1
    for need in ("R-events", "T:forward", "T:reverse", "T:chimera", "T:partial", "T:nosite", "T:tiny", "T:dangling-site", "T:primer-mismatch", "T:over-budget",
                 "T:tag-sub", "T:tag-del", "T:tag-ins", "T:primer-indel", "T:indel-primers", "T:delimiter", "T:rescue",
                 "T:mode-strict", "T:mode-hamming", "T:mode-indel", "T:fmt-csv", "T:fmt-old", "T:assigned", "T:assigned-delimiter",
                 "T:flagged-amplicon", "T:two-records", "T:flagged-read"):
        vac.append(("trace class " + need, tcls.get(need, 0)))
    if os.path.exists(os.path.join(vlib.REPO, "sample", "wolf_F.fastq.gz")):
        vac.append(("real data through the library, assigned", tcls.get("W:wolf/library/assigned", 0)))
        vac.append(("real data through the binary, assigned", tcls.get("W:wolf/binary/assigned", 0)))
    ctx.classes.update(tcls)
    if not ctx.violations and not ctx.known_hits:
        for name, k in vac:
            ctx.expect_vacuity(name, k)
    for ev in events:
        if ev["src"] == "T" and ev["out"] and ev["out"][0]["smp"] and len(ctx.samples) < 6:
            ctx.samples.append({"trace_event": {"cls": ev["cls"], "read": letters(ev["read"]), "sample": ev["out"][0]["smp"],
                                                "barcode": letters(ev["out"][0]["bc"]), "direction": ev["out"][0]["dir"]}})
            break
    ctx.assumptions += [
        "sheets are well formed: for a given primer all tags have the same length, primer pairs do not share a primer, tags and primers over acgt (primers: IUPAC codes too)",
        "a read whose priming sites are tied (two overlapping hits with the same error count, two equally good re-aligned spans, two hits starting at the same position) has several acceptable answers: the record list is not compared, the safety clause is",
        "the old sheet format has no parameter line: at library level the parameters are set through the public per-primer setters, at binary level only sheets expressible with -e N / --with-indels are run in the old format",
        "sheets with a tag delimiter (delimiter-based extraction and tag rescue) are judged on the safety clause only",
        "the tag matching mode is the same for both primers of all markers (the only form the sheet file can express)",
    ]
    ctx.extra["exhaustive"] = False
    return ctx.finish(rule="R: one comparison per (exported case, strand, sheet format, library|binary); T: one TLC verdict per logged read (both strands)")

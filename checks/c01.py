"""C01 - parsed records do not depend on chunk boundaries, transport or parser workers.

M: Chunker.tla = implementation-shaped model of ReadSeqFileChunk + the three backward splitters, checked by TLC
   against the abstract contract of a chunk reader (every chunk a whole number of records, numbered 0.., put end
   to end they are the file; termination) for every buffer size 2..Len+1 on files rendered FROM record
   descriptors by the generators TextFasta / TextFastq / TextFlat (adversarial shapes).  A generator-only run
   exports many more files with their record starts and expected parse; a negative run shows the 1-byte-buffer
   livelock (why B >= 2 everywhere).
R: every exported file x every buffer size x 4 kinds of io.Reader through the real ReadSeqFileChunk + the real
   chunk parsers; whole-file parse; quality reading off; Read{Fasta,Fastq,Genbank,EMBL} with 1-3 workers; the
   kseq C reader.  Verdict = abstract contract + record equality with the descriptors, never the cut positions.
T: files > 1 MiB built from the TLC-exported "big" shapes so that the 2^20-th byte falls on a chosen byte of a
   chosen record: ReadSeqFileChunk(1 MiB), ReadSequencesFromFile (file, .gz; 1-8 workers), kseq, and the
   obiconvert binary (file, stdin, .gz; 1-8 workers); ChunkerTrace.tla validates every run.
"""
import json
import os
import vlib

FLAT = ("genbank", "embl")


def slim(ev):
    e = dict(ev)
    for k in ("recs", "got", "serials"):
        e[k] = "(%d values)" % len(ev[k])
    return e


def library_panic(err):
    """stderr of a crashed harness: did a goroutine of the real code panic (not the harness itself)?"""
    i = max(err.find("panic:"), err.find("fatal error:"))
    if i < 0:
        return None
    block = err[i:i + 3000]
    frames = [l for l in block.splitlines() if "(" in l and not l.startswith(("\t", "panic", "goroutine", "["))]
    for fr in frames[:4]:
        if fr.startswith("main."):
            return None
        if "obitools4/pkg/" in fr:
            return block[:600]
    return None


def run_harness(ctx, args, out, step):
    """Run the harness; a panic inside a goroutine of the library (it ends the process) is a violation, reported
    together with the failures already written; any other failure of the harness is inconclusive."""
    p = ctx.harness(args, timeout=3000, check=False)
    if p.returncode == 0:
        return True
    excerpt = library_panic(p.stderr or "")
    if excerpt is None:
        raise vlib.Inconclusive("harness failed rc=%d: %s\n%s" % (p.returncode, args[:3], (p.stderr or p.stdout)[-3000:]))
    n = 0
    if os.path.exists(out):
        for line in open(out):
            try:
                r = json.loads(line)
            except ValueError:
                continue
            if step == "replay" and "assert" in r:
                ctx.violation(r["assert"], r.get("class", ""), r.get("detail", ""), r.get("case"))
                n += 1
    ctx.violation("C01.%s.crash" % step, "", "the real code panicked in one of its own goroutines on a well-formed input "
                  "(%d other failures had been written): %s" % (n, excerpt), {"stage": "crash", "stderr": excerpt})
    return False


def validate_trace(ctx, events, label):
    """TLC on ChunkerTrace for a list of events (split so that one JSON trace stays small)."""
    part = 400
    for i in range(0, len(events), part):
        chunk = events[i:i + part]
        tr = ctx.path("trace_%s_%d.ndjson" % (label, i // part))
        vlib.write_ndjson(tr, chunk)
        evs, rejects = ctx.trace_validate("ChunkerTrace", "ChunkerTrace.cfg", tr, timeout=1500)
        for r in rejects:
            ev = evs[r["l"] - 1]
            ctx.violation("C01.trace.%s.%s" % (ev["op"], r["why"]), "%s/%s" % (ev["fmt"], ev["via"]),
                          "%s %s via %s, %d workers, %d-byte file (2^20-th byte in class %s): rejected by ChunkerTrace (%s); %s"
                          % (ev["op"], ev["fmt"], ev["via"], ev["workers"], ev["size"], ev["cls"], r["why"], ev["why"][:300]), ev)
        if not os.environ.get("VERIF_KEEP"):
            os.remove(tr)


def main(ctx):
    thorough = ctx.tier == "thorough"
    if ctx.replay:
        blob = json.load(open(ctx.replay))
        case = blob["case"]
        if "op" in case:      # a trace event: re-validate the recorded run
            validate_trace(ctx, [case], "replay")
            print("[check] a recorded run was re-validated; to re-run the real code: VERIF_SEED=%s bin/check C01 %s"
                  % (blob.get("seed"), blob.get("tier")))
            return ctx.finish()
        cases = ctx.path("cases.ndjson")
        vlib.write_ndjson(cases, [case])
        res = ctx.path("res.ndjson")
        ctx.harness(["replay", "C01", "--cases", cases, "--out", res])
        ctx.add_results(res)
        return ctx.finish()

    # M ---------------------------------------------------------------------------------------------------
    scratch_cases = ctx.path("model_files.ndjson")
    runs = [("Chunker_thorough.cfg" if thorough else "Chunker_quick.cfg"),
            ("ChunkerFlat_thorough.cfg" if thorough else "ChunkerFlat_quick.cfg")]
    if thorough:
        runs.append("Chunker_three.cfg")
    for cfg in runs:
        ctx.tlc_model("Chunker", cfg, env={"VERIF_CASES": scratch_cases}, timeout=3000, deadlock_check=True)
    model_files = vlib.read_cases(scratch_cases)
    ctx.expect_vacuity("files explored by the chunker model", len(model_files))
    ctx.extra["model_files_all_buffer_sizes"] = len(model_files)
    if thorough:
        sim = ctx.tlc_model("Chunker", "Chunker_sim.cfg", env={"VERIF_CASES": scratch_cases}, timeout=1500,
                            simulate="num=2500", extra=("-depth", "6000", "-seed", str(ctx.seed)))
        import re
        m = re.search(r"The number of states generated: (\d+)", sim.out)
        t = re.search(r"(\d+) traces generated", sim.out)
        if not m or int(m.group(1)) == 0:
            raise vlib.Inconclusive("simulation run generated no state")
        ctx.transitions += int(m.group(1))          # simulation: states visited along random behaviours (not distinct)
        ctx.extra["simulated_states"] = int(m.group(1))
        ctx.extra["simulated_behaviours"] = int(t.group(1)) if t else 0
    neg = ctx.tlc("Chunker", "Chunker_b1.cfg", env={"VERIF_CASES": scratch_cases}, timeout=600, count=False, deadlock_check=True)
    if "StepBound" not in neg.invariant_violated:
        raise vlib.Inconclusive("negative test: with a 1-byte buffer the model must violate StepBound (livelock):\n" + neg.tail())
    gen = ctx.path("gen.ndjson")
    ctx.tlc_model("Chunker", "Chunker_gen.cfg", env={"VERIF_CASES": gen}, timeout=1500, deadlock_check=True)
    if thorough:
        ctx.tlc_model("Chunker", "Chunker_gen3.cfg", env={"VERIF_CASES": gen}, timeout=1500, deadlock_check=True)
    shapes = ctx.path("shapes.ndjson")
    ctx.tlc_model("Chunker", "Chunker_shapes.cfg", env={"VERIF_CASES": shapes}, timeout=600, workers=1, deadlock_check=True)
    files = vlib.read_cases(gen)
    ctx.expect_vacuity("generated files", len(files))
    ctx.expect_vacuity("big shapes", len(vlib.read_cases(shapes)))
    ctx.extra["generated_files"] = len(files)

    # R ---------------------------------------------------------------------------------------------------
    if thorough:
        chosen = files
    else:   # all FASTA/FASTQ files, all one-record flat files, a seeded sample of the two-record flat files
        chosen = [c for c in files if c["fmt"] not in FLAT or len(c["idx"]) == 1]
        for fm in FLAT:
            pairs = [c for c in files if c["fmt"] == fm and len(c["idx"]) == 2]
            chosen += vlib.sample(ctx.rng, pairs, 48)
    ctx.rng.shuffle(chosen)
    sel = ctx.path("replay_cases.ndjson")
    vlib.write_ndjson(sel, chosen)
    res = ctx.path("res.ndjson")
    if run_harness(ctx, ["replay", "C01", "--cases", sel, "--out", res, "--opt", "variants=" + ("all" if thorough else "rotate")], res, "replay"):
        ctx.add_results(res)
    ctx.extra["replayed_files"] = len(chosen)
    need = ["fasta/whole", "fastq/whole", "genbank/whole", "embl/whole", "fasta/reader", "fastq/reader", "genbank/reader",
            "embl/reader", "fasta/kseq", "fastq/kseq", "fasta/chunks=2", "fastq/chunks=2", "genbank/chunks=2", "embl/chunks=2",
            "fastq/eQ", "fastq/eP", "fastq/Qq", "fastq/Pq", "fastq/pp", "fasta/dd", "fasta/eg", "fasta/ss",
            "genbank/XX", "embl/XX", "genbank/tt", "embl/tt", "genbank/DD", "embl/DD"]
    if thorough:
        need += ["fasta/chunks=3", "fastq/chunks=3", "genbank/chunks=3", "embl/chunks=3"]
    if not ctx.violations:          # (a violation may be the very reason why a class was not reached)
        for n in need:
            ctx.expect_vacuity("replay class " + n, ctx.classes.get(n, 0))

    # T ---------------------------------------------------------------------------------------------------
    bindir = ctx.build_cmds(["obiconvert"])
    trace = ctx.path("trace.ndjson")
    crashed = not run_harness(ctx, ["record", "C01", "--out", trace, "--n", 400 if thorough else 22, "--opt", "shapes=" + shapes,
                 "--opt", "bindir=" + bindir, "--opt", "thorough=%d" % (1 if thorough else 0),
                 "--opt", "dir=" + ctx.path("bigfiles"), "--opt", "flat128=%d" % (1 if thorough else 2), "--opt", "cmdevery=%d" % (4 if thorough else 5)], trace, "record")
    events = []
    for l in open(trace) if os.path.exists(trace) else []:
        try:
            events.append(json.loads(l))
        except ValueError:      # torn last line of a crashed run
            pass
    if os.path.exists(trace) and not os.environ.get("VERIF_KEEP"):
        os.remove(trace)
    if crashed and not events:
        return ctx.finish()
    ctx.expect_vacuity("recorded runs", len(events))
    tcls = {}
    for e in events:
        k = "%s/%s/%s" % (e["op"], e["fmt"], e["via"] if e["op"] != "chunks" else "1MiB")
        tcls[k] = tcls.get(k, 0) + 1
        if e["op"] == "chunks" and len(e["cuts"]) >= 2:
            tcls["chunks>=2/" + e["fmt"]] = tcls.get("chunks>=2/" + e["fmt"], 0) + 1
        if e["op"] == "read" and e["workers"] >= 2 and len(e["orders"]) >= 2:
            tcls["racing-parsers/" + e["fmt"]] = tcls.get("racing-parsers/" + e["fmt"], 0) + 1
        if e["op"] == "chunks":
            tcls["boundary/" + e["cls"]] = tcls.get("boundary/" + e["cls"], 0) + 1
    ctx.extra["trace_classes"] = tcls
    for n in ["chunks>=2/fasta", "chunks>=2/fastq", "chunks>=2/genbank", "chunks>=2/embl", "racing-parsers/fasta",
              "racing-parsers/fastq", "read/fasta/gz", "read/fastq/gz", "read/fasta/kseq", "read/fastq/kseq",
              "read/genbank/file", "read/embl/file",
              "cmd/fasta/file", "cmd/fasta/stdin", "cmd/fasta/gz", "cmd/fastq/file", "cmd/fastq/stdin", "cmd/fastq/gz",
              "boundary/fastq/eQ", "boundary/fastq/Qq", "boundary/fastq/eP", "boundary/fasta/multi", "boundary/fastq/multi"] + \
            (["boundary/genbank/128MiB", "boundary/embl/128MiB"] if thorough else []):
        if not crashed and not ctx.violations:
            ctx.expect_vacuity("trace class " + n, tcls.get(n, 0))
    validate_trace(ctx, events, "t")
    ctx.samples.append({"trace_event": slim(events[0])})
    ctx.samples.append({"trace_event": slim(next((e for e in events if e["op"] == "cmd"), events[-1]))})

    ctx.assumptions += [
        "read buffers of at least 2 bytes (a 1-byte buffer makes ReadSeqFileChunk spin: negative model run Chunker_b1.cfg)",
        "well-formed input = what the generators express: one-line FASTQ sequences, single blank between identifier and "
        "definition, no blank line between records, GenBank/EMBL entries with a FEATURES/FT table",
        "file order = order of the batch numbers (ReadGenbank/ReadEMBL deliver numbered batches without sorting them; "
        "the writers re-sequence); at command level the output order itself is checked",
        "in the > 1 MiB files the serial field of a record is overwritten by the harness with its rank (input encoding)",
    ]
    return ctx.finish(rule="case = one generated file, replayed with every buffer size 2..len+1 x reader kinds (each counted); "
                           "trace event = one run of a reader / of obiconvert on a file larger than the production buffer")

"""X03 (extension) - the legacy OBITools `key=value;` title-line annotations, the guess of the header kind, and
their equivalence with the JSON header; the CSV writer / reader pair and the ecoPCR reader, field by field.

M: ObiHeaderMC.tla on ObiHeader.tla: (lines) a hand-written table of text forms and their reading against the
   grammar-level reader, every separator / padding / tail; (strings) every string over a small alphabet as a
   value: the syntactic statement of "this string survives" is sound and complete; (records) write -> read
   returns representable records, whatever the key order, and a second pass changes nothing; (guess) which reader
   must be chosen.  Negative test: the loop AS WRITTEN in the code must be refuted by TLC.
   TextTables.tla: CSV record <-> fields, ecoPCR line -> annotations.
R: every exported case on the real ParseOBIFeatures / ParseFastSeqOBIHeader / FormatFastSeqOBIHeader /
   ParseGuessedFastSeqHeader (behind the real FASTA reader) / JSON header writer+reader.
T: random header texts and random records far beyond the pools, and the real obiconvert binaries
   (--output-OBI-header | obiconvert [--input-OBI-header]); ObiHeaderTrace.tla evaluates the specification on
   every logged event.
Disagreements explained by the specification's implementation-shaped variant (ReadHeaderAsWritten) are the
listed findings (extra/findings.json): assertion X03.known_departure, class = name of the departure.
"""
import json
import os
import re
import vlib


def taken_for_csv(ctx, f, *errs):
    """the guess of the FILE format (outside X03's statements) takes some FASTA / FASTQ files whose JSON headers hold
    commas and quotes for CSV: the command then fails or prints rubbish whatever the header format; reported as what
    it is (listed finding), the file is left out of the header / column events"""
    if any(re.search(r"\.(fastq|fasta) mime type: text/csv", e or "") for e in errs):
        ctx.violation("X03.filetype.fastx_taken_for_csv", "fastq" if f["fastq"] else "fasta",
                      "obiconvert %s: the file is a well-formed %s file (written by the library) and is read as CSV (mime type: text/csv)" %
                      (os.path.basename(f["file"]), "FASTQ" if f["fastq"] else "FASTA"),
                      {"file": os.path.basename(f["file"]), "head": open(f["file"], "rb").read(3000).decode("utf8", "replace")})
        return True
    return False


# ------------------------------------------------------------------ decoding of command outputs
def enc_member(k, v):
    if v is None:
        return {"k": k, "t": "null", "v": ""}
    if isinstance(v, bool):
        return {"k": k, "t": "bool", "v": "true" if v else "false"}
    if isinstance(v, (int, float)):
        return {"k": k, "t": "num", "v": repr(v)}
    if isinstance(v, str):
        return {"k": k, "t": "str", "v": v}
    return {"k": k, "t": "other", "v": ""}


def enc_entry(k, v):
    """a JSON value as [k, t, v, m] (numbers: their printed form; the specification computes the value)"""
    if isinstance(v, bool):
        return {"k": k, "t": "bool", "v": "true" if v else "false", "m": []}
    if isinstance(v, (int, float)):
        return {"k": k, "t": "num", "v": repr(v), "m": []}
    if isinstance(v, str):
        return {"k": k, "t": "str", "v": v, "m": []}
    if isinstance(v, dict):
        return {"k": k, "t": "map", "v": "", "m": [enc_member(mk, v[mk]) for mk in sorted(v)]}
    return {"k": k, "t": "other", "v": json.dumps(v), "m": []}


def records_of(data, fastq):
    """(id, rest of the title line) of every record of a FASTA / FASTQ text"""
    lines = data.decode("utf8", "replace").split("\n")
    out = []
    if fastq:
        if lines and lines[-1] == "":
            lines = lines[:-1]
        for i in range(0, len(lines), 4):
            out.append(lines[i][1:])
    else:
        out = [l[1:] for l in lines if l.startswith(">")]
    res = []
    for t in out:
        k = 0
        while k < len(t) and t[k] not in " \t":
            k += 1
        res.append((t[:k], t[k:].lstrip(" \t")))
    return res


def json_title(rest):
    """annotations and definition of a title written with the JSON header"""
    if not rest.startswith("{"):
        return [], rest.strip()
    obj, end = json.JSONDecoder().raw_decode(rest)
    d = rest[end:].strip()
    if "definition" in obj:
        dd = obj.pop("definition")
        d = (str(dd) + " " + d).strip() if d else str(dd)
    return [enc_entry(k, obj[k]) for k in sorted(obj)], d


def command_events(ctx, thorough):
    bindir = ctx.build_cmds(["obiconvert"])
    conv = os.path.join(bindir, "obiconvert")
    d = ctx.path("x03files")
    man = ctx.path("x03files.ndjson")
    ctx.harness(["record", "X03", "--out", man, "--n", 40 if thorough else 8, "--opt", "dir=" + d], timeout=300)
    files = [json.loads(x) for x in open(man) if x.strip()]
    if not files:
        raise vlib.Inconclusive("no input file was written for the command-level runs")
    # stage 0: the records as obiconvert prints them (JSON header); stage A: with the OBI header
    j0 = [{"argv": [conv, "--max-cpu", "2", f["file"]]} for f in files]
    ja = [{"argv": [conv, "--max-cpu", str(1 + k % 4), "--output-OBI-header", f["file"]]} for k, f in enumerate(files)]
    r0 = ctx.run_many(j0, timeout=120)
    ra = ctx.run_many(ja, timeout=120)
    stage_b = []
    for k, f in enumerate(files):
        p = ctx.path("x03_obi_%d.%s" % (k, "fastq" if f["fastq"] else "fasta"))
        open(p, "wb").write(ra[k]["out"])
        f["obi_file"] = p
        for variant, opts in (("guessed", []), ("imposed", ["--input-OBI-header"])):
            stage_b.append({"k": k, "variant": variant, "argv": [conv, "--max-cpu", "2"] + opts, "stdin": p})
    rb = ctx.run_many([{"argv": j["argv"], "stdin": j["stdin"]} for j in stage_b], timeout=120)
    evs = []
    miss = {k for k, f in enumerate(files) if taken_for_csv(ctx, f, r0[k]["err"], ra[k]["err"])}
    for j, r in zip(stage_b, rb):
        k = j["k"]
        if k in miss:
            continue
        f = files[k]
        fq = bool(f["fastq"])
        rc = max(abs(r0[k]["rc"]), abs(ra[k]["rc"]), abs(r["rc"]))
        hung = 1 if (r0[k]["timeout"] or ra[k]["timeout"] or r["timeout"]) else 0
        ev = {"op": "cmd", "variant": j["variant"], "file": os.path.basename(f["file"]), "nrec": f["nrec"], "rc": rc, "hung": hung,
              "argv": "obiconvert --output-OBI-header %s | obiconvert %s" % (os.path.basename(f["file"]), " ".join(j["argv"][3:])),
              "err": (ra[k]["err"] + " | " + r["err"])[-600:] if rc else "", "recs": []}
        if rc == 0 and not hung:
            try:
                direct = {i: json_title(t) for i, t in records_of(r0[k]["out"], fq)}
                obi = dict(records_of(ra[k]["out"], fq))
                via = {i: json_title(t) for i, t in records_of(r["out"], fq)}
            except ValueError as ex:
                raise vlib.Inconclusive("cannot decode a command output: %s" % ex)
            for i in direct:
                if i in obi and i in via:
                    ev["recs"].append({"id": i, "obi": obi[i], "direct": direct[i][0], "def": direct[i][1],
                                       "via": via[i][0], "viadef": via[i][1]})
        evs.append(ev)
    return evs


# ------------------------------------------------------------------ verdicts of the trace specification
def report_rejects(ctx, events, rejects, counts):
    for r in rejects:
        ev = events[r["l"] - 1]
        why = r["why"]
        op = ev["op"]
        if why == "undecided":
            counts["undecided"] = counts.get("undecided", 0) + 1
            continue
        if op == "parse":
            what = "ParseOBIFeatures(%r) = %s definition %r" % (ev["text"], show(ev["ents"]), ev["def"])
        elif op == "rt":
            what = "record %s definition %r written %r, read %s %r; written again %r; JSON header %r read %s; guessed reader %s %r" % (
                show(ev["rec"]), ev["def"], ev["w1"], show(ev["r1"]), ev["d1"], ev["w2"], ev["j"], show(ev["j1"]), show(ev["g1"]), ev["gd1"])
        else:
            what = "%s (%s): rc=%d %s %s" % (ev["argv"], ev["file"], ev["rc"], ev.get("err", "")[-300:],
                                             "; ".join("%s: OBI text %r, direct %s, through the OBI header %s" % (x["id"], x["obi"], show(x["direct"]), show(x["via"]))
                                                       for x in ev["recs"][:3]))
        what = what[:1500]
        if why == "known+brace":
            ctx.violation("X03.guess.brace_definition", op, "rejected by ObiHeaderTrace (%s): %s" % (why, what), ev)
        elif why.startswith("known"):
            ctx.violation("X03.known_departure", why[5:], "rejected by ObiHeaderTrace (%s): %s" % (why, what), ev)
        else:
            ctx.violation("X03.trace.%s.%s" % (op, why[4:] if why.startswith("bad:") else why), op + ("/" + ev["variant"] if op == "cmd" else ""),
                          "rejected by ObiHeaderTrace (%s): %s" % (why, what), ev)


def show(es):
    return "[" + " ".join("%s:(%s)%s%s" % (e["k"], e["t"], e["v"], ("{" + ",".join("%s:(%s)%s" % (m["k"], m["t"], m["v"]) for m in e["m"]) + "}") if e["t"].startswith("map") else "")
                          for e in es)[:500] + "]"


def main(ctx):
    thorough = ctx.tier == "thorough"
    if ctx.replay:
        blob = json.load(open(ctx.replay))
        case = blob["case"]
        if "cls" not in case:                     # a recorded event: let TLC judge it again
            tr = ctx.path("trace.ndjson")
            vlib.write_ndjson(tr, [case])
            if case.get("op") in ("csv", "ecopcr", "csvcmd", "ecocmd"):
                events, rejects = ctx.trace_validate("TextTablesTrace", "TextTablesTrace.cfg", tr)
                for r in rejects:
                    if r["why"] != "undecided":
                        ctx.violation("X03.tables.%s.%s" % (case["op"], r["why"]), case["op"], "rejected by TextTablesTrace (%s)" % r["why"], case)
                return ctx.finish()
            events, rejects = ctx.trace_validate("ObiHeaderTrace", "ObiHeaderTrace.cfg", tr)
            report_rejects(ctx, events, rejects, {})
            if case.get("op") == "cmd":
                print("[check] a command event is re-judged as recorded; re-run the tier with VERIF_SEED=%s to re-record it" % blob.get("seed"))
            return ctx.finish()
        cases = ctx.path("cases.ndjson")
        vlib.write_ndjson(cases, [case])
        res = ctx.path("res.ndjson")
        ctx.harness(["replay", "X03", "--cases", cases, "--out", res] + (["--opt", "tables=1"] if case.get("op") in ("csv", "ecopcr") else []))
        ctx.add_results(res)
        return ctx.finish()

    # M ---------------------------------------------------------------------------------------
    cases = ctx.path("cases.ndjson")
    ctx.tlc_model("ObiHeaderMC", "ObiHeaderMC_thorough.cfg" if thorough else "ObiHeaderMC_quick.cfg",
                  env={"VERIF_CASES": cases}, timeout=3000, heap="8g")
    if thorough:
        ctx.tlc_model("ObiHeaderMC", "ObiHeaderMC_long.cfg", env={"VERIF_CASES": cases}, timeout=3000, heap="8g")
    neg = ctx.tlc("ObiHeaderMC", "ObiHeaderMC_aswritten.cfg", timeout=600, count=False)
    if "AsWrittenAgrees" not in neg.invariant_violated:
        raise vlib.Inconclusive("negative test: the header loop as written in the code must violate AsWrittenAgrees in the model")
    ctx.extra["model_counterexample_of_the_loop_as_written"] = "found by TLC (ObiHeaderMC_aswritten.cfg violates AsWrittenAgrees)"
    try:
        allc = vlib.read_cases(cases)
    except ValueError as ex:
        raise vlib.Inconclusive("torn line in the cases exported by TLC: %s" % ex)
    fam = {}
    for c in allc:
        fam[c["cls"].split("/")[0]] = fam.get(c["cls"].split("/")[0], 0) + 1
    for need in ("lines", "strings", "records", "guess"):
        ctx.expect_vacuity("exported cases of family " + need, fam.get(need, 0))
    ctx.extra["exported_cases"] = fam
    # R ---------------------------------------------------------------------------------------
    res = ctx.path("res.ndjson")
    ctx.harness(["replay", "X03", "--cases", cases, "--out", res], timeout=3000)
    summ = ctx.add_results(res)
    if summ.get("aborted_after_failures"):
        ctx.extra["replay_stopped_after_many_failures"] = True
    elif not ctx.violations:
        for need in ("lines/int/sep=blank/plain/one/tail", "lines/float/sep=blank/plain/two/notail", "lines/bool/sep=tab/plain/one/notail",
                     "lines/quoted/sep=blanks/plain/two/tail", "lines/dict/sep=blank/valpad/one/tail", "lines/dict-as-string/sep=none/plain/one/notail",
                     "lines/str/sep=blank/keypad/one/tail", "strings/representable/ctx2", "strings/not-representable/ctx1",
                     "records/mapint/representable/with0/nodef", "records/str/representable/with2/def", "records/float/representable/with0/def/json",
                     "records/str/not-representable/with0/nodef", "records/int/representable/with0/def/guess", "records/lone-brace-definition/guess",
                     "records/mapstr/representable/with3/def/second-pass", "guess/json/2", "guess/obi/1", "guess/obi/4", "undecided"):
            ctx.expect_vacuity("class " + need, ctx.classes.get(need, 0))
    # T ---------------------------------------------------------------------------------------
    trace = ctx.path("trace.ndjson")
    clsf = ctx.path("gen_classes.json")
    n = 100000 if thorough else 900
    ctx.harness(["record", "X03", "--out", trace, "--n", n, "--opt", "classes=" + clsf], timeout=1200)
    gen = json.load(open(clsf))
    for need in ("num/int", "num/fraction", "num/integral-float", "num/exponent", "num/huge", "dict/valid", "dict/damaged", "value/bool", "value/quoted",
                 "value/near-miss", "value/string", "sep/none", "tail/key-like", "text/soup", "rec/int", "rec/float", "rec/integral-float", "rec/bool",
                 "rec/string", "rec/mapint", "rec/mapstr", "rec/map", "rec/not-representable", "def/brace-first"):
        ctx.expect_vacuity("generated " + need, gen.get(need, 0))
    ctx.extra["generated_classes"] = gen
    cmd_events = command_events(ctx, thorough)
    with open(trace, "a") as f:
        for e in cmd_events:
            f.write(json.dumps(e, separators=(",", ":")) + "\n")
    events, rejects = ctx.trace_validate("ObiHeaderTrace", "ObiHeaderTrace.cfg", trace, timeout=3000, heap="8g")
    counts = {}
    report_rejects(ctx, events, rejects, counts)
    kinds = {}
    for e in events:
        kinds[e["op"]] = kinds.get(e["op"], 0) + 1
    for need in ("parse", "rt", "cmd"):
        ctx.expect_vacuity("trace events " + need, kinds.get(need, 0))
    ctx.expect_vacuity("records seen through the commands", sum(len(e["recs"]) for e in cmd_events))
    ctx.extra["trace_events"] = kinds
    ctx.extra["trace_events_outside_the_decided_domain"] = counts.get("undecided", 0)
    if counts.get("undecided", 0) * 4 > len(events):
        raise vlib.Inconclusive("more than a quarter of the recorded events are outside the decided domain")
    ev0 = next(e for e in events if e["op"] == "parse")
    ctx.samples.append({"trace_event_parse": {"text": ev0["text"], "read": show(ev0["ents"]), "definition": ev0["def"]}})
    ev1 = next(e for e in events if e["op"] == "rt")
    ctx.samples.append({"trace_event_rt": {"record": show(ev1["rec"]), "written": ev1["w1"], "read": show(ev1["r1"])}})
    ctx.samples.append({"command_event": {"argv": cmd_events[0]["argv"], "rc": cmd_events[0]["rc"],
                                          "first_record": cmd_events[0]["recs"][:1]}})

    # (c) CSV writer / reader and ecoPCR reader -------------------------------------------------
    tables(ctx, thorough)

    ctx.assumptions += [
        "header texts hold no line break, no control character other than the tab, no Unicode blank other than space and tab; characters beyond the BMP are not generated",
        "decided domain of numbers: integers up to 2^53, other numbers with at most 15 significant digits and a decimal exponent in -290..300 (ObiHeader!NumDecided); "
        "integers between 2^53 and 2^63 are not decided",
        "not decided: a value starting with an apostrophe, blanks and a double quote; JSON escapes inside a dict; fractional or null members of merged_* / *_count dicts; the key `definition`",
        "nested members of a dict ({...} or [...] inside a dict) are compared by presence, not by content",
        "annotation keys of generated records are distinct; the writer's key order is free (map iteration): readings are compared as sets",
    ]
    return ctx.finish(rule="case = one header text (table of text forms x separators x padding x tails, or every string over the alphabet as a value x contexts), "
                           "one annotation set (typed values x companions x definitions) or one title text for the guess; trace event = one random header text "
                           "parsed, one random record through write/read/write/read + JSON header + guessing reader, one obiconvert pipeline over a file, "
                           "one CSV or ecoPCR file")


def fastx_records(path, fastq):
    """records of a FASTA / FASTQ file written with JSON headers: id, annotations, definition, nucleotides, scores"""
    lines = open(path, "rb").read().decode("utf8").split("\n")
    if lines and lines[-1] == "":
        lines = lines[:-1]
    recs = []
    if fastq:
        for i in range(0, len(lines), 4):
            recs.append((lines[i][1:], lines[i + 1], [ord(c) - 33 for c in lines[i + 3]]))
    else:
        for l in lines:
            if l.startswith(">"):
                recs.append([l[1:], "", []])
            else:
                recs[-1][1] += l
    out = []
    for title, seq, qual in recs:
        k = 0
        while k < len(title) and title[k] not in " \t":
            k += 1
        ents, d = json_title(title[k:].lstrip(" \t"))
        out.append({"id": title[:k], "seq": seq, "qual": qual, "def": d,
                    "ents": [{"k": e["k"], "t": e["t"], "v": e["v"]} for e in ents]})
    return out


def table_command_events(ctx, thorough):
    import csv as pycsv
    import io
    bindir = ctx.build_cmds(["obiconvert", "obicsv"])
    ocsv, conv = os.path.join(bindir, "obicsv"), os.path.join(bindir, "obiconvert")
    d = ctx.path("x03files")
    man = ctx.path("x03files.ndjson")
    if not os.path.exists(man):
        ctx.harness(["record", "X03", "--out", man, "--n", 8, "--opt", "dir=" + d], timeout=300)
    files = [json.loads(x) for x in open(man) if x.strip()]
    jobs, metas = [], []
    for k, f in enumerate(files):
        recs = fastx_records(f["file"], bool(f["fastq"]))
        keys = sorted({e["k"] for r in recs for e in r["ents"] if e["k"] not in ("count", "taxid", "scientific_name")})[:3] + ["zz"]
        for v in range(4 if thorough else 2):
            n = k * 4 + v
            o = {"id": True, "count": n % 2 == 0, "taxon": n % 5 == 1, "definition": n % 3 == 0, "sequence": n % 4 != 3,
                 "quality": (k + v) % 2 == 1, "keys": keys}
            na = "NA" if v % 2 == 0 else "MISSING"
            argv = [ocsv, "--max-cpu", "2", "-i"] + (["--count"] if o["count"] else []) + (["--taxon"] if o["taxon"] else []) + (["-d"] if o["definition"] else []) + \
                (["-s"] if o["sequence"] else []) + (["-q"] if o["quality"] else []) + [x for key in keys for x in ("-k", key)] + \
                (["--na-value", na] if na != "NA" else []) + [f["file"]]
            jobs.append({"argv": argv})
            metas.append({"op": "csvcmd", "argv": " ".join(["obicsv"] + argv[1:-1] + [os.path.basename(f["file"])]), "opts": o, "na": na, "recs": recs, "f": f})
    res = ctx.run_many(jobs, timeout=120)
    evs = []
    seen = set()
    for m, r in zip(metas, res):
        f = m.pop("f")
        if re.search(r"\.(fastq|fasta) mime type: text/csv", r["err"] or ""):
            if f["file"] not in seen:
                seen.add(f["file"])
                taken_for_csv(ctx, f, r["err"])
            continue
        m["rc"] = abs(r["rc"])
        m["hung"] = 1 if r["timeout"] else 0
        rows = list(pycsv.reader(io.StringIO(r["out"].decode("utf8", "replace")))) if r["rc"] == 0 else []
        m["header"] = rows[0] if rows else []
        m["rows"] = rows[1:]
        m["err"] = r["err"][-300:] if r["rc"] else ""
        evs.append(m)
    # ecoPCR files given to a command: as a file with --ecopcr, on stdin with --ecopcr, as a file whose format is guessed
    tt = [c for c in vlib.read_cases(ctx.path("tt_cases.ndjson")) if c["op"] == "ecopcr" and "/v2/" in c["cls"]][:2 if not thorough else 6]
    jobs, metas = [], []
    for k, c in enumerate(tt):
        p = ctx.path("cmd%d.ecopcr" % k)
        open(p, "w").write(c["text"])
        for how, argv, stdin in (("file", [conv, "--ecopcr", p], None), ("stdin", [conv, "--ecopcr"], p), ("guessed", [conv, p], None)):
            jobs.append({"argv": argv, "stdin": stdin, "timeout": 10})
            metas.append({"op": "ecocmd", "how": how, "argv": "obiconvert " + " ".join(os.path.basename(a) for a in argv[1:]) + (" < file" if stdin else ""),
                          "nrows": len(c["recs"])})
    res = ctx.run_many(jobs, timeout=10)
    for m, r in zip(metas, res):
        m["rc"] = abs(r["rc"])
        m["hung"] = 1 if r["timeout"] else 0
        m["nout"] = sum(1 for l in r["out"].split(b"\n") if l.startswith(b">"))
        m["err"] = "\n".join(l for l in r["err"].splitlines() if "level=info" not in l)[:400]
        evs.append(m)
    return evs


def tables(ctx, thorough):
    """part (c): see spec/L2_io/TextTables.tla"""
    cases = ctx.path("tt_cases.ndjson")
    # the ecoPCR cases are lines of 10 kB: one writer (CSVWrite from several workers tears long lines)
    ctx.tlc_model("TextTablesMC", "TextTablesMC_thorough.cfg" if thorough else "TextTablesMC_quick.cfg", env={"VERIF_CASES": cases}, timeout=1500, workers=1)
    try:
        vlib.read_cases(cases)
    except ValueError as ex:
        raise vlib.Inconclusive("torn line in the cases exported by TLC: %s" % ex)
    res = ctx.path("tt_res.ndjson")
    ctx.harness(["replay", "X03", "--cases", cases, "--out", res, "--opt", "tables=1"], timeout=1500)
    summ = ctx.add_results(res)
    if not ctx.violations and not summ.get("aborted_after_failures"):
        for need in ("csv/int/representable/scores/write", "csv/str/changes/noqualcol/read", "csv/float/representable/noscores/read",
                     "csv/bool/representable/scores/hash-id/read", "ecopcr/v2/superkingdom/rows4", "ecopcr/v1/order/rows3"):
            ctx.expect_vacuity("class " + need, ctx.classes.get(need, 0))
    trace = ctx.path("tt_trace.ndjson")
    ctx.harness(["record", "X03", "--out", trace, "--n", 3000 if thorough else 300, "--opt", "tables=1"], timeout=1500)
    cmd = table_command_events(ctx, thorough)
    with open(trace, "a") as f:
        for e in cmd:
            f.write(json.dumps(e, separators=(",", ":")) + "\n")
    events, rejects = ctx.trace_validate("TextTablesTrace", "TextTablesTrace.cfg", trace, timeout=1500)
    und = 0
    for r in rejects:
        ev = events[r["l"] - 1]
        why = r["why"]
        op = ev["op"]
        brief = {k: ev[k] for k in ev if k not in ("recs", "rows", "text")} if op in ("csvcmd", "ecopcr") else ev
        what = json.dumps(brief, ensure_ascii=False)[:1100]
        if why == "undecided":
            und += 1
        elif why.startswith("known"):
            parts = [p for p in why[5:].split("+") if p]
            if "crash" in parts:
                ctx.violation("X03.ecopcr.crash_at_end_of_input", op, "rejected by TextTablesTrace (%s): %s" % (why, what), ev)
                parts.remove("crash")
            if parts:
                ctx.violation("X03.tables.known_departure", "+" + "+".join(parts), "rejected by TextTablesTrace (%s): %s" % (why, what), ev)
        elif op == "ecocmd" and why == "bad:cmd-hung":
            ctx.violation("X03.ecopcr.command_never_ends", ev["how"], "%s does not end (10 s) on a %d-line ecoPCR file" % (ev["argv"], ev["nrows"]), ev)
        elif op == "ecocmd" and why == "bad:cmd-exit-status" and "nil pointer dereference" in ev.get("err", "") and "ReadEcoPCR" in ev.get("err", ""):
            ctx.violation("X03.ecopcr.crash_at_end_of_input", op + "/" + ev["how"], "%s: exit status %d, %s" % (ev["argv"], ev["rc"], ev["err"][:300]), ev)
        else:
            ctx.violation("X03.tables.%s.%s" % (op, why[4:] if why.startswith("bad:") else why), op + ("/" + ev["how"] if op == "ecocmd" else ""),
                          "rejected by TextTablesTrace (%s): %s" % (why, what), ev)
    kinds = {}
    for e in events:
        kinds[e["op"]] = kinds.get(e["op"], 0) + 1
    for need in ("csv", "ecopcr", "csvcmd", "ecocmd"):
        ctx.expect_vacuity("table trace events " + need, kinds.get(need, 0))
    ctx.extra["table_trace_events"] = kinds
    ctx.extra["table_trace_events_outside_the_decided_domain"] = und

"""C13 - the obiclean graph is exact and identical for any worker count.

M: Clean.tla (edges / son counts / weight propagation / ratio filter / status on every data set of <=4(5)
   sequences from a pool of one-difference variants x counts), CleanRace.tla (worker pool: atomic increment
   => no lost update, all interleavings; racy variant = negative test that must fail).
R: every data set built by the real BuildSeqGraph (hook VerifBuildGraph) with 1/2/8 workers and two input
   orders; star data sets x 16 workers x many rounds with a barrier gate before the shared counter update.
T: random mutation families (a,c,g,t; up to 22 sequences), graph + reported mutations validated by CleanTrace;
   the obiclean binary with --max-cpu {1,2,8,32}: annotations must be identical.
"""
import json
import os
import vlib


def main(ctx):
    thorough = ctx.tier == "thorough"
    if ctx.replay:
        blob = json.load(open(ctx.replay))
        case = blob["case"]
        res = ctx.path("res.ndjson")
        if "seqs" in case and "nodes" not in case:
            cases = ctx.path("cases.ndjson")
            vlib.write_ndjson(cases, [case])
            ctx.harness(["replay", "C13", "--cases", cases, "--out", res])
        else:
            ctx.harness(["replay", "C13", "--cases", "/dev/null", "--out", res, "--opt", "race=1", "--n", 3000], timeout=900)
        ctx.add_results(res)
        return ctx.finish()

    cases = ctx.path("cases.ndjson")
    ctx.tlc_model("Clean", "Clean_thorough.cfg" if thorough else "Clean_quick.cfg", env={"VERIF_CASES": cases}, timeout=1700)
    ctx.tlc_model("CleanRace", "CleanRace_atomic.cfg", timeout=300)
    neg = ctx.tlc("CleanRace", "CleanRace_racy.cfg", timeout=300, count=False)
    if "NoLostUpdate" not in neg.invariant_violated:
        raise vlib.Inconclusive("negative test: the racy model should lose an update")
    allc = vlib.read_cases(cases)
    ctx.expect_vacuity("clean data sets", len(allc))
    if not thorough and len(allc) > 6000:
        sel = ctx.path("sel.ndjson")
        vlib.write_ndjson(sel, vlib.sample(ctx.rng, allc, 6000))
        cases = sel
    res = ctx.path("res.ndjson")
    ctx.harness(["replay", "C13", "--cases", cases, "--out", res], timeout=1500)
    ctx.add_results(res)
    for need in ("w1", "w2", "w8"):
        ctx.expect_vacuity("class " + need, ctx.classes.get(need, 0))
    # the lost-update schedule, forced with the barrier gate
    res2 = ctx.path("res_race.ndjson")
    ctx.harness(["replay", "C13", "--cases", "/dev/null", "--out", res2, "--opt", "race=1", "--opt", "workers=16",
                 "--n", 6000 if thorough else 1200], timeout=1500)
    ctx.add_results(res2)
    ctx.expect_vacuity("race rounds", ctx.classes.get("race-round", 0))

    trace = ctx.path("trace.ndjson")
    ctx.harness(["record", "C13", "--out", trace, "--n", 400 if thorough else 80], timeout=900)
    events, rejects = ctx.trace_validate("CleanTrace", "CleanTrace.cfg", trace, timeout=1500)
    for r in rejects:
        ev = events[r["l"] - 1]
        ctx.violation("C13.trace." + r["why"], "w%d" % ev["w"], "graph of a random data set (%d sequences, %d workers) rejected by CleanTrace: %s"
                      % (len(ev["seqs"]), ev["w"], r["why"]), ev)
    ctx.samples.append({"trace_event_nodes": events[0]["nodes"][:3]})

    binary_level(ctx, thorough)
    command_level(ctx, thorough)
    ctx.assumptions += ["a pure data race is reproduced statistically (barrier gate before the increment, star data set): a miss is possible, a false alarm is not",
                        "sequences over a,c (model) / a,c,g,t (traces); distance 1 only for exactness, distance>1 and ratio only relationally (binary level)"]
    return ctx.finish(rule="case = data set (sequences, counts) x ratio x workers x input order; race rounds counted separately")


def command_level(ctx, thorough):
    """what the obiclean COMMAND writes (status and weight per sample) against Clean.tla: the command decides by
    itself when the ratio filter runs and how the samples are split; one event per (run, sample), judged by CleanTrace"""
    bindir = ctx.build_cmds(["obiclean"])
    rng = ctx.rng
    d = ctx.path("cleancmd")
    os.makedirs(d, exist_ok=True)

    def sub(s, i, c=None):
        c = c or rng.choice([x for x in "acgt" if x != s[i]])
        return s[:i] + c + s[i + 1:]
    samples = {}
    # (1) a variant lighter than its two fathers by count but heavier by weight (centre of a star of its own)
    core = "".join(rng.choice("acgt") for _ in range(24))
    s_ = core
    f1, f2 = sub(core, 2), sub(core, 20)
    inv = {f1: 11, f2: 12, s_: 10}                 # weights: s = 35, f1 = 11 + 35*11/23, f2 = 12 + 35*12/23
    for i in range(5, 10):
        inv[sub(core, i)] = 5
    samples["inv"] = inv
    # (2..) random mutation families, counts with ties and gaps; a sample with a single sequence; an empty-handed one
    for k in range(6 if thorough else 3):
        fam = {}
        for _ in range(2):
            root = "".join(rng.choice("acgt") for _ in range(20))
            vs = [root]
            for _ in range(rng.randint(4, 9)):
                p_ = rng.choice(vs)
                vs.append(sub(p_, rng.randrange(len(p_))))
            for v in vs:
                fam[v] = rng.choice([1, 1, 2, 3, 10, 40, 40])
        samples["fam%d" % k] = fam
    samples["lonely"] = {"".join(rng.choice("acgt") for _ in range(20)): 7}
    allseq = sorted({s for m in samples.values() for s in m})
    ids = {s: "c%d" % (i + 1) for i, s in enumerate(allseq)}
    fn = os.path.join(d, "in.fa")
    with open(fn, "w") as f:
        for s in allseq:
            ms = {n: m[s] for n, m in samples.items() if s in m}
            f.write(">%s {\"count\":%d,\"merged_sample\":%s}\n%s\n" % (ids[s], sum(ms.values()), json.dumps(ms), s))
    jobs, tags = [], []
    for extra, ratio in (([], [1, 1]), (["-r", "0.5"], [1, 2]), (["-r", "1.0"], [1, 1])):
        for cpu in (1, 4):
            jobs.append({"argv": [os.path.join(bindir, "obiclean"), "--max-cpu", str(cpu), "-s", "sample"] + extra + [fn]})
            tags.append((extra, ratio, cpu))
    res = ctx.run_many(jobs, timeout=300)
    evs = []
    for (extra, ratio, cpu), r in zip(tags, res):
        if r["rc"] != 0:
            raise vlib.Inconclusive("obiclean failed: " + r["err"][-500:])
        ann = {}
        for line in r["out"].decode().split("\n"):
            if line.startswith(">"):
                name, _, rest = line[1:].partition(" ")
                ann[name] = json.loads(rest[:rest.rindex("}") + 1])
        for n, m in sorted(samples.items()):
            seqs = sorted(m)
            e = {"kind": "cmd", "argv": "obiclean --max-cpu %d -s sample %s" % (cpu, " ".join(extra)), "sample": n,
                 "seqs": [list(s) for s in seqs], "counts": [m[s] for s in seqs], "ratio": ratio, "status": [], "weight": []}
            for s in seqs:
                a = ann.get(ids[s], {})
                e["status"].append(str((a.get("obiclean_status") or {}).get(n, "missing")))
                e["weight"].append(int((a.get("obiclean_weight") or {}).get(n, -1)))
            evs.append(e)
    # the same sample given without a merged_sample map: as (count, sample) attributes, and as a count alone (a single
    # PCR, e.g. plain obiuniq output: obiclean files the sequences under the sample "NA")
    for form in ("sample-attribute", "count-only"):
        for n in ("inv", "fam0"):
            m = samples[n]
            fn2 = os.path.join(d, "in_%s_%s.fa" % (form, n))
            with open(fn2, "w") as f:
                for s in sorted(m):
                    ann = {"count": m[s]}
                    if form == "sample-attribute":
                        ann["sample"] = n
                    f.write(">%s %s\n%s\n" % (ids[s], json.dumps(ann), s))
            r = ctx.run_many([{"argv": [os.path.join(bindir, "obiclean"), "--max-cpu", "2", "-s", "sample", fn2]}], timeout=300)[0]
            if r["rc"] != 0:
                raise vlib.Inconclusive("obiclean failed: " + r["err"][-500:])
            key = n if form == "sample-attribute" else "NA"
            ann = {}
            for line in r["out"].decode().split("\n"):
                if line.startswith(">"):
                    name, _, rest = line[1:].partition(" ")
                    ann[name] = json.loads(rest[:rest.rindex("}") + 1])
            seqs = sorted(m)
            e = {"kind": "cmd", "argv": "obiclean --max-cpu 2 -s sample  [%s input]" % form, "sample": n,
                 "seqs": [list(s) for s in seqs], "counts": [m[s] for s in seqs], "ratio": [1, 1], "status": [], "weight": []}
            for s in seqs:
                a = ann.get(ids[s], {})
                e["status"].append(str((a.get("obiclean_status") or {}).get(key, "missing")))
                e["weight"].append(int((a.get("obiclean_weight") or {}).get(key, -1)))
            evs.append(e)
    # several thousand sequences (the command annotates them by batches of 1000 on all its workers): the head flag and
    # the four counts written on a record are those of its own status map
    big = os.path.join(d, "big.fa")
    with open(big, "w") as f:
        k = 0
        for fam in range(70):
            root = "".join(rng.choice("acgt") for _ in range(24))
            vs = {root}
            while len(vs) < 45:
                p_ = rng.choice(sorted(vs))
                vs.add(sub(p_, rng.randrange(len(p_))))
            for v in sorted(vs):
                k += 1
                ms = {"s%d" % x: rng.choice([1, 2, 5, 30]) for x in rng.sample(range(8), rng.randint(1, 4))}
                f.write(">b%d {\"count\":%d,\"merged_sample\":%s}\n%s\n" % (k, sum(ms.values()), json.dumps(ms), v))
    for rep in range(2):
        r = ctx.run_many([{"argv": [os.path.join(bindir, "obiclean"), "--max-cpu", "16", "-s", "sample", big]}], timeout=600)[0]
        if r["rc"] != 0:
            raise vlib.Inconclusive("obiclean failed: " + r["err"][-500:])
        for line in r["out"].decode().split("\n"):
            if line.startswith(">"):
                name, _, rest = line[1:].partition(" ")
                a = json.loads(rest[:rest.rindex("}") + 1])
                st = a.get("obiclean_status") or {}
                evs.append({"kind": "rec", "argv": "obiclean --max-cpu 16 -s sample big.fa", "sample": name,
                            "st": [str(st[x]) for x in sorted(st)], "head": 1 if a.get("obiclean_head") else 0,
                            "hc": int(a.get("obiclean_headcount", -1)), "ic": int(a.get("obiclean_internalcount", -1)),
                            "sc": int(a.get("obiclean_singletoncount", -1)), "n": int(a.get("obiclean_samplecount", -1))})
    tr = ctx.path("cmdtrace.ndjson")
    vlib.write_ndjson(tr, evs)
    events, rejects = ctx.trace_validate("CleanTrace", "CleanTrace.cfg", tr, timeout=1500)
    for r in rejects:
        ev = events[r["l"] - 1]
        if ev["kind"] == "rec":
            ctx.violation("C13.cmd." + r["why"], "counts", "%s: record %s has statuses %s but head=%d headcount=%d internalcount=%d singletoncount=%d samplecount=%d"
                          % (ev["argv"], ev["sample"], ev["st"], ev["head"], ev["hc"], ev["ic"], ev["sc"], ev["n"]), ev)
            continue
        ctx.violation("C13.cmd." + r["why"], "sample=%s %s" % (ev["sample"], ev["argv"].split("sample", 1)[1].strip() or "default"),
                      "%s, sample %s (%d sequences): statuses %s weights %s rejected by CleanTrace" %
                      (ev["argv"], ev["sample"], len(ev["seqs"]), ev["status"], ev["weight"]), ev)
    ctx.extra["command_sample_events"] = len(evs)


def binary_level(ctx, thorough):
    """obiclean binary: identical annotations whatever --max-cpu, 3 repetitions"""
    bindir = ctx.build_cmds(["obiclean"])
    rng = ctx.rng
    d = ctx.path("cleanfiles")
    os.makedirs(d, exist_ok=True)
    fn = os.path.join(d, "in.fa")
    with open(fn, "w") as f:
        n = 0
        for fam in range(6):
            root = "".join(rng.choice("acgt") for _ in range(30))
            variants = {root}
            for _ in range(40):
                p = rng.choice(sorted(variants))
                i = rng.randrange(len(p))
                variants.add(p[:i] + rng.choice("acgt") + p[i + 1:])
            for v in sorted(variants):
                n += 1
                c1, c2 = rng.choice([1, 1, 2, 5, 50]), rng.choice([0, 1, 3, 40])
                ms = {"s1": c1}
                if c2:
                    ms["s2"] = c2
                f.write(">q%d {\"count\":%d,\"merged_sample\":%s}\n%s\n" % (n, c1 + c2, json.dumps(ms), v))
    jobs, tags = [], []
    for extra in ([], ["-d", "2"], ["-r", "0.5"]):
        for cpu in (1, 2, 8, 32):
            for rep in range(3 if cpu > 1 else 1):
                jobs.append({"argv": [os.path.join(bindir, "obiclean"), "--max-cpu", str(cpu), "-s", "sample"] + extra + [fn]})
                tags.append((" ".join(extra), cpu))
    res = ctx.run_many(jobs, timeout=300)
    ref = {}
    for (opt, cpu), r in zip(tags, res):
        if r["rc"] != 0:
            raise vlib.Inconclusive("obiclean failed: " + r["err"][-500:])
        recs = sorted(l for l in r["out"].decode().split("\n") if l.startswith(">"))
        if opt not in ref:
            ref[opt] = (cpu, recs)
        elif recs != ref[opt][1]:
            diff = [(a, b) for a, b in zip(recs, ref[opt][1]) if a != b][:2]
            ctx.violation("C13.cmd.nondeterministic", "opt=%s" % opt,
                          "obiclean %s: --max-cpu %d differs from --max-cpu %d: %s" % (opt, cpu, ref[opt][0], diff),
                          {"opt": opt, "cpu": cpu})
        ctx.replayed += 1

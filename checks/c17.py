"""C17 - truncated or corrupt compressed input is reported, never silently accepted.

M: ReaderFault.tla (decompressor -> MIME sniffer ReadFull(S) -> chunk reader ReadFull(B)...; origin of an
   unexpected EOF tracked): FaultIsFatal, NoSilentTruncation, HealthyIsNotFatal, termination; all four
   surfacing sites reached.  ReaderFault_aswritten.cfg is the negative test of the spec (must FAIL).
T: real files of the 4 codecs (compressed by the repository's writers), truncated at every / sampled byte
   and bit-flipped, classified by the codec library (instrument); the real commands (file argument and
   stdin) are run on each; ReaderFaultTrace.tla validates exit status and record counts.
"""
import json
import os
import vlib

S = B = 1024 * 1024


def ref_decode(codec, data):
    import bz2, gzip, lzma
    if codec == "gz":
        return gzip.decompress(data)
    if codec == "bz2":
        return bz2.decompress(data)
    return lzma.decompress(data, format=lzma.FORMAT_XZ)


def main(ctx):
    thorough = ctx.tier == "thorough"
    if ctx.replay:
        blob = json.load(open(ctx.replay))
        ev = blob["case"]
        print("[check] replay of a C17 event needs the faulted file to be rebuilt: re-run the tier with VERIF_SEED=%s; "
              "fault: codec=%s %s t=%s" % (blob.get("seed"), ev.get("codec"), ev.get("fault"), ev.get("t")))
        ctx.tier = "quick"
        ctx.seed = int(blob.get("seed", ctx.seed))

    cases = ctx.path("cases.ndjson")
    ctx.tlc_model("ReaderFault", "ReaderFault_quick.cfg", env={"VERIF_CASES": cases}, timeout=600)
    sites = {}
    for c in vlib.read_cases(cases):
        sites[c["site"]] = sites.get(c["site"], 0) + 1
    for need in ("open", "sniff", "first", "later", "none"):
        ctx.expect_vacuity("model site " + need, sites.get(need, 0))
    neg = ctx.tlc("ReaderFault", "ReaderFault_aswritten.cfg", timeout=600, count=False)
    if "FaultIsFatal" not in neg.invariant_violated:
        raise vlib.Inconclusive("negative test: the as-written model should violate FaultIsFatal")

    d = ctx.path("files")
    man = ctx.path("manifest.ndjson")
    ctx.harness(["record", "C17", "--out", man, "--n", 0 if thorough else 36, "--opt", "dir=" + d, "--opt", "big=1"], timeout=1500)
    files = [json.loads(l) for l in open(man) if l.strip()]
    bindir = ctx.build_cmds(["obiconvert", "obicount"])
    conv, count = os.path.join(bindir, "obiconvert"), os.path.join(bindir, "obicount")
    jobs, evs = [], []
    skipped = {}
    intact = {}
    for f in files:
        if f["fault"] == "none" and f["codec"] == "gz":
            intact[(f["fmt"], f["size"])] = f["file"]
    for f in files:
        kind = {"ueof": "trunc", "other": "corrupt", "open": "header", "none": "none"}[f["err"]]
        # second, independent instrument for gz / bz2 / xz: the reference decoders of the Python standard library.
        # When the Go library linked by the repository takes the faulted bytes for a complete stream but the
        # reference decoder reports the fault, the input IS faulty: it must be reported (class <lib>-accepts).
        f["libaccepts"] = ""
        if f["fault"] != "none" and kind == "none" and f["codec"] in ("gz", "bz2", "xz"):
            try:
                ref_decode(f["codec"], open(f["file"], "rb").read())
            except Exception as ex:
                kind = "trunc" if f["fault"] == "trunc" else "corrupt"
                f["libaccepts"] = {"gz": "gzip", "bz2": "bzip2", "xz": "xz"}[f["codec"]] + "-library-accepts"
                f["errtext"] = "reference decoder: " + str(ex)[:60]
        magic = {"gz": 2, "bz2": 3, "zst": 4, "xz": 6}[f["codec"]]
        # damage inside the magic number: the file cannot be recognised as compressed any more, what is left is not a
        # sequence file either: the commands that guess the format must refuse it (only they are asked)
        inmagic = (f["fault"] == "trunc" and f["t"] < magic) or (f["fault"] == "flip" and f["t"] < magic * 8)
        if inmagic and (kind == "none" or f["fmt"] not in ("fasta", "fastq")):
            skipped["inside-magic-number-not-asked"] = skipped.get("inside-magic-number-not-asked", 0) + 1
            continue
        if kind == "none" and f["fault"] != "none":
            k = "undetectable-by-codec(same=%d)" % f["same"]
            skipped[k] = skipped.get(k, 0) + 1
            continue
        modes = [("obiconvert-file", [conv, "--max-cpu", "2", f["file"]], None),
                 ("obicount-file", [count, f["file"]], None)]
        if inmagic:
            pass
        elif f["codec"] == "gz" and f["fmt"] in ("fasta", "fastq"):
            modes.append(("obiconvert-stdin", [conv, "--max-cpu", "2"], f["file"]))
        # the format given on the command line: no sniffing, the chunk reader meets the fault in its first read
        if f["fmt"] in ("fasta", "fastq", "genbank", "embl") and f["size"] == "small" and not inmagic:
            modes.append(("obiconvert-forced", [conv, "--max-cpu", "2", "--" + f["fmt"], f["file"]], None))
        # several input files: the faulted one next to an intact file of the same format (multi-file reader path)
        if kind != "none" and (len(evs) % 5 == 0) and not inmagic:
            mate = intact.get((f["fmt"], f["size"]))
            if mate:
                modes.append(("obiconvert-2files-first", [conv, "--max-cpu", "2", f["file"], mate], None))
                modes.append(("obiconvert-2files-last", [conv, "--max-cpu", "2", mate, f["file"]], None))
                # the faulted file as the file of the mates of an intact forward file
                pout = ctx.path("paired_out_%d" % len(jobs))
                modes.append(("obiconvert-paired-mate", [conv, "--max-cpu", "2", "--paired-with", f["file"], "-o", pout, mate], None))
        for name, argv, stdin in modes:
            jobs.append({"argv": argv, "stdin": stdin})
            evs.append({"op": "file", "mode": name, "codec": f["codec"], "fault": f["fault"], "t": f["t"], "clen": f["clen"],
                        "fmt": f["fmt"], "size": f["size"], "kind": kind, "D": f["D"], "d": f["d"], "S": S, "B": B,
                        "nrec": f["nrec"], "errtext": f["errtext"][:80], "hung": 0, "pgz": f.get("pgz", ""), "libaccepts": f["libaccepts"],
                        "variant": f.get("variant", "")})
    res = ctx.run_many(jobs, timeout=180)
    for e, r in zip(evs, res):
        e["rc"] = r["rc"]
        e["hung"] = 1 if r["timeout"] else 0
        out = r["out"]
        if e["mode"].startswith("obiconvert"):
            if e["fmt"] == "fastq":
                e["nrec_out"] = out.count(b"\n") // 4
            else:
                e["nrec_out"] = sum(1 for l in out.split(b"\n") if l.startswith(b">"))
        else:
            e["nrec_out"] = e["nrec"] if r["rc"] == 0 else 0     # obicount: only the status is used
    trace = ctx.path("trace.ndjson")
    vlib.write_ndjson(trace, evs)
    sitesf = ctx.path("sites.ndjson")
    events, rejects = ctx.trace_validate("ReaderFaultTrace", "ReaderFaultTrace.cfg", trace, env={"VERIF_SITES": sitesf})
    real_sites = {}
    for srec in vlib.read_cases(sitesf):
        e = events[srec["l"] - 1]
        key = "%s/%s" % (e["codec"], srec["site"])
        real_sites[key] = real_sites.get(key, 0) + 1
    ctx.extra["real_surfacing_sites"] = real_sites
    ctx.extra["skipped_faults"] = skipped
    for codec in ("gz", "bz2", "xz", "zst"):
        ctx.expect_vacuity("%s faults surfacing in the sniffer" % codec, real_sites.get(codec + "/sniff", 0))
        ctx.expect_vacuity("%s faults surfacing after the first MiB" % codec,
                           real_sites.get(codec + "/first", 0) + real_sites.get(codec + "/later", 0))
        ctx.expect_vacuity("%s intact files" % codec, real_sites.get(codec + "/none", 0))
    for r in rejects:
        e = events[r["l"] - 1]
        # the file readers decompress .gz with klauspost/pgzip: when that library itself takes the faulted bytes
        # for a complete stream, the acceptance is the third-party module's (known finding), not the repository's
        where = "pgzip-accepts" if (e["mode"] != "obiconvert-stdin" and e.get("pgz") == "accepts") else (e.get("libaccepts") or "inside")
        cls = "%s/%s/%s/%s/%s" % (e["mode"], e["codec"] + ("+" + e["variant"] if e.get("variant") else ""), e["fault"], e["kind"], where)
        ctx.violation("C17.%s.%s" % (e["mode"], r["why"]), cls,
                      "%s on %s file (%s at %d of %d bytes; codec delivers %d of %d bytes then '%s'): rc=%d, %d of %d records written"
                      % (e["mode"], e["codec"], e["fault"], e["t"], e["clen"], e["d"], e["D"], e["errtext"], e["rc"], e["nrec_out"], e["nrec"]), e)
    ctx.samples += [events[0], next((e for e in events if e["fault"] == "trunc"), events[0])]
    ctx.assumptions += ["the codec library run directly on the faulted bytes is the instrument that says whether (and after how many bytes) the fault is detectable; faults it cannot see are skipped (counted in skipped_faults)",
                        "empty prefix (t=0) is a legitimately empty input and is not a fault; a prefix shorter than the codec's magic number, or a bit flip inside it, cannot be recognised as compressed input and is not asserted"]
    return ctx.finish(rule="event = (command, transport) x (codec, file, truncation length | flipped bit | intact)")

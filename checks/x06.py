"""X06 (extension) - obifind, and the taxonomy options of obiannotate (statements: extra/X06.md).

M: TLC on spec/L3_command/TaxFindMC.tla (TaxFind.tla on Tax.tla of C14): every labelled rooted tree up to MaxN
   nodes x rank / name / alternative-name / alias variants x 17 obifind command lines, 8 obiannotate runs and
   4 --add-lca-in runs;
   theorems: restrictions are an intersection / union of clades, name laws (-a adds, -F = ^lit$, anchors remove),
   --parents order, line layout, alias transparency of the annotations, the code as written departs only for a
   regular expression over all names; the verdict operators refuse a lost / doubled / moved line.  One exported
   case per (taxonomy, command line) with the expected blocks of lines / attribute sets.
R: every exported case (quick: a seeded sample of the taxonomies) on the real obifind / obiannotate binaries,
   run on an NCBI dump of the taxonomy.
T: random taxonomies (up to hundreds of nodes, all shapes of C14's generator, homonyms, synonyms) and random
   command lines, obiannotate --add-lca-in SLOT --lca-error e on weighted bags of taxids; spec/trace/TaxFindTrace.tla re-evaluates the specification on every run.
A disagreement that the specification's as-written variant explains exactly is reported as X06.known.<name>
(extra/findings.json); anything else is a violation.
"""
import json
import os

import vlib

KNOWN = {"known:first_alt_name_lost": "X06.known.first_alt_name_lost",
         "known:rank_list_ignored": "X06.known.rank_list_ignored",
         "known:scientific_name_key": "X06.known.scientific_name_key",
         "known:lca_synonym_weight_lost": "X06.known.lca_synonym_weight_lost"}


def load_own_findings(ctx):
    """entries of extra/findings_X06.json are honoured even before the maintainer merges them into findings.json"""
    p = os.path.join(vlib.VERIF, "extra", "findings_X06.json")
    if os.path.exists(p):
        have = {e.get("id") for e in ctx.findings.entries}
        for e in json.load(open(p)):
            if e.get("property") == "X06" and e.get("id") not in have:
                ctx.findings.entries.append(e)


def tax_of(load):
    return {f: load[f] for f in ("parent", "rank", "name", "alt", "alias")}


def validate_trace(ctx, trace, timeout):
    events, rejects = ctx.trace_validate("TaxFindTrace", "TaxFindTrace.cfg", trace, timeout=timeout, heap="6g")
    run = ctx.tlc_runs[-1]
    if run["distinct"] != len(events):
        raise vlib.Inconclusive("TaxFindTrace judged %d of %d events" % (run["distinct"], len(events)))
    seen = set()
    counts = {}
    for r in rejects:
        if r["l"] in seen:
            continue
        seen.add(r["l"])
        ev = events[r["l"] - 1]
        if r["why"] == "bad-input" or ev["e"] == "load":
            raise vlib.Inconclusive("the harness logged a malformed event (%d: %s)" % (r["l"], r["why"]))
        k = r["l"] - 1
        while events[k]["e"] != "load":
            k -= 1
        tax = tax_of(events[k])
        small = tax if len(tax["parent"]) <= 12 else "(%d nodes, see the replay file)" % len(tax["parent"])
        if ev["e"] == "find":
            aid = KNOWN.get(r["why"], "X06.trace.find." + r["why"].replace(" ", "_"))
            detail = "TaxFindTrace: %s; obifind %s args=%s -> exit %d, %d lines %s %s on %s" % (
                r["why"], {k: v for k, v in ev["q"].items() if k != "pats"}, ev["args"], ev["rc"], len(ev["out"]),
                ev["out"][:6], ev["err"][:300], small)
            case = {"kind": "trace", "tax": tax, "find": ev}
        elif ev["e"] == "lca":
            aid = KNOWN.get(r["why"], "X06.trace.lca." + r["why"].replace(" ", "_"))
            detail = "TaxFindTrace: %s; obiannotate --add-lca-in %s --lca-error %.3f on %d records -> exit %d %s; records %s -> %s on %s" % (
                r["why"], ev["slot"], ev["E"] / 1000.0, len(ev["recs"]), ev["rc"], ev["err"][:300],
                [x["bag"] for x in ev["recs"]][:8],
                [dict(zip(o["ik"] + o["sk"] + o["fk"], o["iv"] + o["sv"] + o["fv"])) for o in ev["obs"]][:8], small)
            case = {"kind": "trace", "tax": tax, "lca": ev}
        else:
            aid = KNOWN.get(r["why"], "X06.trace.annot." + r["why"].replace(" ", "_"))
            detail = "TaxFindTrace: %s; obiannotate %s on %d records -> exit %d %s on %s" % (
                r["why"], ev["opts"], len(ev["recs"]), ev["rc"], ev["err"][:300], small)
            case = {"kind": "trace", "tax": tax, "annot": ev}
        counts[aid] = counts.get(aid, 0) + 1
        if aid in KNOWN.values() and counts[aid] > 2:
            continue                                   # ubiquitous: two full reports are enough
        ctx.violation(aid, ev["class"], detail[:3000], case)
    for aid, n in counts.items():
        if aid in KNOWN.values():
            ctx.extra["trace_" + aid.split(".")[-1]] = n
    return events


def main(ctx):
    thorough = ctx.tier == "thorough"
    load_own_findings(ctx)
    bindir = ctx.build_cmds(["obifind", "obiannotate"])

    if ctx.replay:
        blob = json.load(open(ctx.replay))
        case = blob["case"]
        if case.get("kind") == "trace":
            script = ctx.path("script.json")
            json.dump(case, open(script, "w"))
            trace = ctx.path("trace.ndjson")
            ctx.harness(["record", "X06", "--out", trace, "--opt", "script=" + script, "--opt", "bindir=" + bindir])
            validate_trace(ctx, trace, 600)
        else:
            cases = ctx.path("cases.ndjson")
            vlib.write_ndjson(cases, [case])
            res = ctx.path("res.ndjson")
            ctx.harness(["replay", "X06", "--cases", cases, "--out", res, "--opt", "bindir=" + bindir])
            ctx.add_results(res)
        return ctx.finish()

    # M ---------------------------------------------------------------------------------------
    raw = ctx.path("cases_raw.ndjson")
    m = ctx.tlc_model("TaxFindMC", "TaxFindMC_thorough.cfg" if thorough else "TaxFindMC_quick.cfg",
                      env={"VERIF_CASES": raw}, timeout=3000, heap="6g")
    try:
        allcases = vlib.read_cases(raw)
    except ValueError as ex:
        raise vlib.Inconclusive("torn line in the exported cases: %s" % ex)
    if 2 * len(allcases) != m.distinct:
        raise vlib.Inconclusive("exported %d cases for %d model states" % (len(allcases), m.distinct))
    ctx.extra["exported_cases"] = len(allcases)
    ctx.extra["max_nodes_model"] = max(len(c["parent"]) for c in allcases)

    # R ---------------------------------------------------------------------------------------
    bytax = {}
    for c in allcases:
        bytax.setdefault(json.dumps(tax_of(c), sort_keys=True), []).append(c)
    keys = sorted(bytax)
    ntax = len(keys) if thorough else 220
    chosen = vlib.sample(ctx.rng, keys, ntax)
    picked = [c for k in chosen for c in bytax[k]]
    ctx.extra["taxonomies_model"] = len(keys)
    ctx.extra["taxonomies_replayed"] = len(chosen)
    cases = ctx.path("cases.ndjson")
    vlib.write_ndjson(cases, picked)
    res = ctx.path("res.ndjson")
    ctx.harness(["replay", "X06", "--cases", cases, "--out", res, "--opt", "bindir=" + bindir], timeout=3000)
    summ = ctx.add_results(res)
    if not summ.get("aborted_after_failures") and not ctx.violations:
        if summ["checked"] < len(picked):
            raise vlib.Inconclusive("replayed %d of %d cases" % (summ["checked"], len(picked)))
        for need in ("find.all", "find.all.rank", "find.all.clades", "find.all.rank.clades.withpath", "find.all.clades.fails",
                     "find.names.regexp", "find.names.fixed", "find.names.fixed.allnames.withpath",
                     "find.names.regexp.allnames.rank.clades.withpath", "find.names.regexp.clades",
                     "find.path", "find.path.withpath", "find.path.rank.clades", "find.path.fails",
                     "annot.sci.fails", "annot.path.rank", "annot.atrank", "annot.path.rank.fails", "annot.atrank.path.rank.sci.fails",
                     "scn.lca_several_acceptable", "scn.lca_error_reported",
                     "scn.empty_block", "scn.block_of_several", "scn.annot_without_taxid"):
            ctx.expect_vacuity("class " + need, ctx.classes.get(need, 0))
    if not ctx.violations:
        for need in ("lca.exact", "lca.tolerant"):
            ctx.expect_vacuity("class " + need, sum(v for k, v in ctx.classes.items() if k.startswith(need)))
        # the first alternative name of a taxon decides the answer: listed (statement) or lost (code as written)
        ctx.expect_vacuity("class first alternative name decides",
                           ctx.classes.get("scn.first_alt_name_decides", 0) + ctx.classes.get("known.first_alt_name_lost", 0))
    ctx.extra["replay_known_departures"] = {k: v for k, v in ctx.classes.items() if k.startswith("known.")}

    # T ---------------------------------------------------------------------------------------
    trace = ctx.path("trace.ndjson")
    ntrees = 400 if thorough else 80
    ctx.harness(["record", "X06", "--out", trace, "--n", ntrees, "--opt", "bindir=" + bindir,
                 "--opt", "queries=%d" % (16 if thorough else 10), "--opt", "annots=%d" % (4 if thorough else 3),
                 "--opt", "lcas=%d" % (6 if thorough else 4), "--opt", "synonyms=1",
                 "--opt", "maxn=%d" % (600 if thorough else 240)], timeout=3000)
    events = validate_trace(ctx, trace, 3000)
    kinds = {}
    for e in events:
        if e["e"] == "load":
            continue
        kinds[e["class"]] = kinds.get(e["class"], 0) + 1
        if e["e"] == "find" and e["rc"] == 0 and len(e["out"]) >= 50:
            kinds["long listing"] = kinds.get("long listing", 0) + 1
        if e["rc"] != 0:
            kinds["refused"] = kinds.get("refused", 0) + 1
    if not ctx.violations:
        for need in ("find.names.regexp", "find.names.regexp.allnames", "find.names.fixed", "find.path", "find.all", "find.ranks",
                     "long listing", "refused"):
            ctx.expect_vacuity("trace runs of class " + need, kinds.get(need, 0))
        ctx.expect_vacuity("trace obiannotate runs", sum(v for k, v in kinds.items() if k.startswith("annot")))
        for need in ("lca.exact", "lca.tolerant"):
            ctx.expect_vacuity("trace runs of class " + need, sum(v for k, v in kinds.items() if k.startswith(need)))
    sizes = [len(e["parent"]) for e in events if e["e"] == "load"]
    ctx.extra["trace_taxonomies"] = len(sizes)
    ctx.extra["trace_max_nodes"] = max(sizes)
    ctx.extra["trace_runs"] = kinds
    ev = next(e for e in events if e["e"] == "find" and e["rc"] == 0 and 0 < len(e["out"]) <= 4)
    ctx.samples.append({"trace_event": ev})
    ctx.assumptions += [
        "taxids of the nodes are 1..n (the root is any of them); merged ids and unknown ids lie outside; every taxon has a scientific name",
        "names and ranks are plain ASCII labels without '|' and without regular-expression metacharacters",
        "patterns are literals with optional ^ and $ anchors and '.' wildcards: the rest of the regular-expression syntax is not given a meaning",
        "--lca-error: the answer must be acceptable (clade of the exact LCA, at most e of the weight outside, error reported within bounds); WHICH acceptable taxon is answered is not decided",
    ]
    ctx.extra["exhaustive"] = thorough
    return ctx.finish(rule="one case per (taxonomy, command line); quick replays every command line of a seeded sample of the "
                           "taxonomies; trace events are single runs of the real binaries on a random taxonomy")

"""X04 (extension) - obimicrosat, obikmersimcount, obikmermatch (statements: extra/X04.md).

M: TLC on MicrosatMC.tla (Microsat.tla: the declarative definition of the microsatellite that must be reported,
   its linear evaluation, the normalised unit, the annotated record; the search AS WRITTEN - two regular
   expressions and min_unit - is sound and departs on exactly two classes of inputs) and on KmerSimMC.tla
   (KmerSim.tla on Kmer.tla: count = number of pairs of windows holding the same canonical k-mer, strand
   invariance, --max-kmers, --min-shared-kmers, the query itself; Push / NewKmerMap / Query AS WRITTEN, for every
   order of the addresses, is the definition with three deviations switched on).  Both export their cases.
R: every exported case on the real MakeMicrosatWorker, and on NewKmerMap[Uint64|Uint128] / Query / FilterMinCount
   / Max / MakeCountMatchWorker with the reference objects laid out in both address orders.
T: seeded random inputs far beyond the models, on the library (workers sharing the index through MakeIWorker) and
   on the real binaries obimicrosat, obikmersimcount (also --self), obikmermatch; MicrosatTrace.tla and
   KmerSimTrace.tla evaluate the specification on every event.
A disagreement that the specification's as-written variant explains exactly is reported as X04.known_departure
with the deviation as class (extra/findings.json); anything else is a violation.
"""
import collections
import json
import os
import re
import vlib

MS_KEYS = ["microsat", "microsat_from", "microsat_left", "microsat_right", "microsat_to", "microsat_unit",
           "microsat_unit_count", "microsat_unit_length", "microsat_unit_normalized", "microsat_unit_orientation", "seq_length"]
MS_INT = {"microsat_from": "from", "microsat_to": "to", "microsat_unit_count": "uc", "microsat_unit_length": "ul", "seq_length": "slen"}
MS_STR = {"microsat": "ms", "microsat_left": "left", "microsat_right": "right", "microsat_unit": "unit",
          "microsat_unit_normalized": "norm", "microsat_unit_orientation": "orient"}
HEAP = "6g"


# ------------------------------------------------------------------ decoding of command outputs
def parse_records(data):
    """records of a FASTA / FASTQ / JSON output: list of (id, annotations, sequence, qualities or None)"""
    text = data.decode("utf8", "replace")
    out = []
    if not text.strip():
        return out
    if text.lstrip().startswith("["):
        for r in json.loads(text):
            q = r.get("qualities")
            out.append((r["id"], r.get("annotations") or {}, r.get("sequence", ""), None if q is None else [ord(c) - 33 for c in q]))
        return out
    lines = text.split("\n")
    if lines and lines[-1] == "":
        lines = lines[:-1]

    def title(t):
        k = 0
        while k < len(t) and t[k] not in " \t":
            k += 1
        rest = t[k:].strip()
        ann = {}
        if rest.startswith("{"):
            ann, _ = json.JSONDecoder().raw_decode(rest)
        return t[:k], ann
    if text.startswith("@"):
        if len(lines) % 4:
            raise ValueError("FASTQ output with %d lines" % len(lines))
        for i in range(0, len(lines), 4):
            rid, ann = title(lines[i][1:])
            out.append((rid, ann, lines[i + 1], [ord(c) - 33 for c in lines[i + 3]]))
        return out
    cur = None
    for l in lines:
        if l.startswith(">"):
            rid, ann = title(l[1:])
            cur = [rid, ann, "", None]
            out.append(cur)
        elif cur is not None:
            cur[2] += l.strip()
    return [tuple(x) for x in out]


def ms_out(ann, seq, cmp_):
    """the annotations of an obimicrosat record as the event fields; anything unexpected goes to 'extra'"""
    out = {"seq": seq, "cmp": cmp_}
    extra = []
    for k, f in MS_INT.items():
        v = ann.get(k)
        if k not in ann:
            extra.append("missing:" + k)
            v = -1
        elif isinstance(v, bool) or not isinstance(v, int):
            extra.append("not-int:" + k)
            v = -1
        out[f] = v
    for k, f in MS_STR.items():
        v = ann.get(k)
        if k not in ann:
            extra.append("missing:" + k)
            v = "?"
        elif not isinstance(v, str):
            extra.append("not-string:" + k)
            v = "?"
        out[f] = v
    for k in ann:
        if k not in MS_KEYS:
            extra.append("unexpected:" + k)
    return out, sorted(extra)


def ms_events_of_run(ctx, f, r):
    """events (one per input record) decoded from one run of obimicrosat on the file described by f"""
    if r["timeout"] or r["rc"] != 0:
        ctx.violation("X04.microsat.command_failed", "cmd", "%s: exit status %s%s on a well-formed input file: %s" %
                      (f["cmdline"], r["rc"], " (timeout)" if r["timeout"] else "", r["err"][-600:]),
                      {"cmdline": f["cmdline"], "failed_command": 1, "input": open(f["file"]).read()[:4000]})
        return []
    try:
        recs = parse_records(r["out"])
    except ValueError as ex:
        raise vlib.Inconclusive("cannot decode the output of %s: %s" % (f["cmdline"], ex))
    by = collections.defaultdict(list)
    for rid, ann, seq, qual in recs:
        by[rid].append((ann, seq, qual))
    known = set()
    evs = []
    for rec in f["recs"]:
        got = [(0, x) for x in by.get(rec["id"], [])] + [(1, x) for x in by.get(rec["id"] + "_cmp", [])]
        known.update((rec["id"], rec["id"] + "_cmp"))
        ev = {"kind": "ms", "origin": "cmd", "cmdline": f["cmdline"], "sc": rec["sc"], "id": rec["id"], "s": rec["s"], "q": rec["q"],
              "umin": rec["umin"], "umax": rec["umax"], "cnt": rec["cnt"], "minlen": rec["minlen"], "flank": rec["flank"], "re": rec["re"],
              "pan": 0, "panmsg": "", "n": len(got), "qout": [], "extra": [], "idout": "",
              "out": {"ul": 0, "uc": 0, "slen": 0, "from": 0, "to": 0, "ms": "", "unit": "", "norm": "", "orient": "", "left": "", "right": "", "seq": "", "cmp": 0}}
        if got:
            cmp_, (ann, seq, qual) = got[0]
            ev["out"], ev["extra"] = ms_out(ann, seq, cmp_)
            ev["qout"] = qual if (qual is not None and rec["q"]) else []
            ev["idout"] = rec["id"] + ("_cmp" if cmp_ else "")
        evs.append(ev)
    stray = [rid for rid in by if rid not in known]
    if stray:
        ctx.violation("X04.microsat.stray_record", "cmd", "%s writes records that are not in the input: %s" % (f["cmdline"], stray[:5]),
                      {"cmdline": f["cmdline"], "failed_command": 1, "stray": stray[:20]})
    return evs


def ms_command_events(ctx, bindir, nfiles, per, maxlen):
    exe = os.path.join(bindir, "obimicrosat")
    d = ctx.path("msfiles")
    man = ctx.path("msfiles.ndjson")
    ctx.harness(["record", "X04", "--out", man, "--n", nfiles, "--opt", "part=ms", "--opt", "dir=" + d,
                 "--opt", "per=%d" % per, "--opt", "maxlen=%d" % maxlen], timeout=300)
    files = [json.loads(x) for x in open(man) if x.strip()]
    if not files:
        raise vlib.Inconclusive("no input file was written for obimicrosat")
    jobs = []
    for k, f in enumerate(files):
        argv = [exe] + f["argv"] + ["--max-cpu", str(1 + k % 4)]
        if k % 5 == 4:
            argv.append("--json-output")
        f["cmdline"] = "obimicrosat " + " ".join(argv[1:] + [os.path.basename(f["file"])])
        jobs.append({"argv": argv + [f["file"]]})
    res = ctx.run_many(jobs, timeout=120)
    evs = []
    for f, r in zip(files, res):
        evs += ms_events_of_run(ctx, f, r)
    return evs


def ms_rerun(ctx, bindir, ev):
    """the command of a recorded event, run again on that record alone (options spelled out)"""
    path = ctx.path("one." + ("fastq" if ev["q"] else "fasta"))
    with open(path, "w") as f:
        if ev["q"]:
            f.write("@%s\n%s\n+\n%s\n" % (ev["id"], ev["s"], "".join(chr(33 + v) for v in ev["q"])))
        else:
            f.write(">%s\n%s\n" % (ev["id"], ev["s"]))
    argv = ["--min-unit-length", str(ev["umin"]), "--max-unit-length", str(ev["umax"]), "--min-unit-count", str(ev["cnt"]),
            "--min-length", str(ev["minlen"]), "--min-flank-length", str(ev["flank"])] + ([] if ev["re"] else ["--not-reoriented"])
    fd = {"file": path, "argv": argv, "cmdline": "obimicrosat " + " ".join(argv) + " " + os.path.basename(path),
          "recs": [{k: ev[k] for k in ("sc", "id", "s", "q", "umin", "umax", "cnt", "minlen", "flank", "re")}]}
    r = ctx.run_many([{"argv": [os.path.join(bindir, "obimicrosat")] + argv + [path]}], timeout=120)[0]
    return ms_events_of_run(ctx, fd, r)


def ks_jobs(bindir, sc, refs_file, queries_file, k):
    """the command lines run for one scenario: (origin, selfmode, argv, cmdline)"""
    count = os.path.join(bindir, "obikmersimcount")
    match = os.path.join(bindir, "obikmermatch")
    base = ["-r", refs_file, "-k", str(sc["k"])] + (["-S"] if sc["sp"] else [])
    lim = ["-M", str(sc["mo"])] if sc["mo"] != -1 else []
    thr = ["-m", str(sc["minc"])] if (sc["minc"] != 1 or k % 2) else []
    cpu = ["--max-cpu", str(sc["w"])]
    out = [("count", 0, [count] + base + lim + thr + cpu + [queries_file], "obikmersimcount " + " ".join(base[2:] + lim + thr + cpu) + " -r refs queries"),
           ("count", 1, [count] + base + lim + thr + cpu + ["--self"], "obikmersimcount " + " ".join(base[2:] + lim + thr + cpu) + " -r refs --self")]
    if sc["sc"] in ("family", "random"):
        # thresholds that really exclude references sharing a few k-mers (chimeras, mutated copies)
        mthr = ["-m", str(max(sc["minc"], (1, 8, 20, 40)[k % 4]))]
        out.append(("match", 0, [match] + base + mthr + cpu + [queries_file], "obikmermatch " + " ".join(base[2:] + mthr + cpu) + " -r refs queries"))
    return out


def ks_event_of_run(ctx, origin, sc, selfmode, cmdline, r):
    inputs = {"refs": sc["refs"], "queries": [[q["id"], q["s"]] for q in sc["queries"]]}
    if r["timeout"] or r["rc"] != 0:
        ctx.violation("X04.kmer.command_failed", origin, "%s: exit status %s%s on well-formed input files: %s" %
                      (cmdline, r["rc"], " (timeout)" if r["timeout"] else "", r["err"][-600:]), {"cmdline": cmdline, "failed_command": 1, "inputs": inputs})
        return None
    try:
        recs = parse_records(r["out"])
    except ValueError as ex:
        raise vlib.Inconclusive("cannot decode the output of %s: %s" % (cmdline, ex))
    by = collections.defaultdict(list)
    for rid, ann, seq, qual in recs:
        by[rid].append((ann, seq))
    if selfmode:
        queries = [{"sc": "reference_itself", "id": "r%d" % (i + 1), "s": s, "self": i + 1} for i, s in enumerate(sc["refs"])]
    else:
        queries = [{"sc": q["sc"], "id": q["id"], "s": q["s"], "self": 0} for q in sc["queries"]]
    ev = {"kind": "ks", "origin": origin, "cmdline": cmdline, "sc": sc["sc"], "refs": sc["refs"], "k": sc["k"], "sp": sc["sp"],
          "mo": sc["mo"] if origin == "count" else -1, "minc": int(cmdline.split()[cmdline.split().index("-m") + 1]) if "-m" in cmdline.split() else 1,
          "w": sc["w"], "bits": 128,
          "pan": 0, "panmsg": "", "rank": [], "selfmode": selfmode, "queries": []}
    for q in queries:
        qo = dict(q, ans=[], rans=[], nm=-1, ksize=-1, spk=-1, seen=len(by.get(q["id"], [])), pan=0, panmsg="", outs=[])
        got = by.get(q["id"], [])
        if origin == "count":
            if got:
                ann = got[0][0]
                v = ann.get("obikmer_match_count")
                qo["nm"] = v if isinstance(v, int) and not isinstance(v, bool) else -2
                v = ann.get("obikmer_kmer_size")
                qo["ksize"] = v if isinstance(v, int) and not isinstance(v, bool) else -2
                v = ann.get("obikmer_sparse_kmer")
                qo["spk"] = (1 if v else 0) if isinstance(v, bool) else -2
        else:
            for ann, seq in got:
                mid = str(ann.get("obikmer_match_id", ""))
                rev = 1 if mid.endswith("-rev") else 0
                m = re.fullmatch(r"r(\d+)", mid[:-4] if rev else mid)
                v = ann.get("obikmer_match_count")
                al = ann.get("obikmer_ali_length")
                qo["outs"].append({"mid": int(m.group(1)) if m and 1 <= int(m.group(1)) <= len(sc["refs"]) else 0, "rev": rev,
                                   "orient": str(ann.get("obikmer_orientation", "")),
                                   "mc": v if isinstance(v, int) and not isinstance(v, bool) else -2,
                                   "ident1": 1 if ann.get("obikmer_identity") == 1 else 0,
                                   "alen": al if isinstance(al, int) and not isinstance(al, bool) else -2, "seq": seq})
        ev["queries"].append(qo)
    stray = [rid for rid in by if rid not in {q["id"] for q in queries}]
    if stray:
        ctx.violation("X04.kmer.stray_record", origin, "%s writes records that are not queries: %s" % (cmdline, stray[:5]),
                      {"cmdline": cmdline, "failed_command": 1, "inputs": inputs})
    return ev


def ks_command_events(ctx, bindir, nsets, maxlen):
    d = ctx.path("ksfiles")
    man = ctx.path("ksfiles.ndjson")
    ctx.harness(["record", "X04", "--out", man, "--n", nsets, "--opt", "part=ks", "--opt", "dir=" + d, "--opt", "maxlen=%d" % maxlen], timeout=300)
    sets = [json.loads(x) for x in open(man) if x.strip()]
    if not sets:
        raise vlib.Inconclusive("no input file was written for obikmersimcount")
    jobs, meta = [], []
    for k, st in enumerate(sets):
        for origin, selfmode, argv, cmdline in ks_jobs(bindir, st["scenario"], st["refs_file"], st["queries_file"], k):
            jobs.append({"argv": argv})
            meta.append((origin, st["scenario"], selfmode, cmdline))
    res = ctx.run_many(jobs, timeout=180)
    evs = []
    for (origin, sc, selfmode, cmdline), r in zip(meta, res):
        ev = ks_event_of_run(ctx, origin, sc, selfmode, cmdline, r)
        if ev is not None:
            evs.append(ev)
    return evs


def ks_rerun(ctx, bindir, ev):
    """the command of a recorded event, run again on files rebuilt from the event"""
    rf, qf = ctx.path("one_refs.fasta"), ctx.path("one_queries.fasta")
    open(rf, "w").write("".join(">r%d\n%s\n" % (i + 1, s) for i, s in enumerate(ev["refs"])))
    qs = [q for q in ev["queries"] if not ev["selfmode"]]
    open(qf, "w").write("".join(">%s\n%s\n" % (q["id"], q["s"]) for q in qs))
    sc = {"sc": ev["sc"], "refs": ev["refs"], "k": ev["k"], "sp": ev["sp"], "mo": ev["mo"], "minc": ev["minc"], "w": ev["w"],
          "queries": [{"sc": q["sc"], "id": q["id"], "s": q["s"]} for q in qs]}
    exe = os.path.join(bindir, "obikmersimcount" if ev["origin"] == "count" else "obikmermatch")
    argv = [exe, "-r", rf, "-k", str(ev["k"])] + (["-S"] if ev["sp"] else []) + (["-M", str(ev["mo"])] if ev["mo"] != -1 else []) + \
           ["-m", str(ev["minc"]), "--max-cpu", str(ev["w"])] + (["--self"] if ev["selfmode"] else [qf])
    cmdline = os.path.basename(exe) + " " + " ".join(argv[3:-1]) + (" -r refs --self" if ev["selfmode"] else " -r refs queries")
    r = ctx.run_many([{"argv": argv}], timeout=180)[0]
    out = ks_event_of_run(ctx, ev["origin"], sc, ev["selfmode"], cmdline, r)
    return [out] if out is not None else []


# ------------------------------------------------------------------ verdicts
def ms_describe(ev):
    call = ev.get("cmdline") or ("MakeMicrosatWorker(minUnitLength=%d, maxUnitLength=%d, minUnits=%d, minLength=%d, minFlank=%d, reoriented=%s)"
                                 % (ev["umin"], ev["umax"], ev["cnt"], ev["minlen"], ev["flank"], bool(ev["re"])))
    if ev["pan"]:
        got = "panics: " + ev["panmsg"]
    elif ev["n"] == 0:
        got = "drops the record"
    else:
        o = ev["out"]
        got = ("writes %d record(s): id %s from=%d to=%d unit=%s x%d (len %d) normalized=%s %s left=%s microsat=%s right=%s seq=%s seq_length=%d extra=%s"
               % (ev["n"], ev["idout"], o["from"], o["to"], o["unit"], o["uc"], o["ul"], o["norm"], o["orient"], o["left"], o["ms"], o["right"],
                  o["seq"], o["slen"], ev["extra"]))
        if ev["q"]:
            got += " scores in %s out %s" % (ev["q"][:12], ev["qout"][:12])
    return ("%s on record %s %s %s" % (call, ev["id"], ev["s"], got))[:1800]


def ks_describe(ev, why):
    m = re.search(r"@(\d+)$", why)
    qs = ev["queries"]
    if m and 1 <= int(m.group(1)) <= len(qs):
        qs = [qs[int(m.group(1)) - 1]]
    call = ev.get("cmdline") or ("NewKmerMap[Uint%d](k=%d, sparse=%s, maxoccurs=%d) + Query; MakeCountMatchWorker(min=%d) on %d workers"
                                 % (ev["bits"], ev["k"], bool(ev["sp"]), ev["mo"], ev["minc"], ev["w"]))
    parts = []
    for q in qs[:3]:
        if ev["origin"] == "match":
            parts.append("query %s %s: records %s" % (q["id"], q["s"], [{k: o[k] for k in ("mid", "rev", "orient", "mc", "ident1", "alen")} for o in q["outs"]]))
        elif ev["origin"] == "count":
            parts.append("query %s %s%s: obikmer_match_count=%d kmer_size=%d sparse=%d records=%d" %
                         (q["id"], q["s"], " (reference %d itself)" % q["self"] if q["self"] else "", q["nm"], q["ksize"], q["spk"], q["seen"]))
        else:
            parts.append("query %s %s%s: counts %s (reverse complement %s), address ranks %s; worker: obikmer_match_count=%d kmer_size=%d records=%d%s" %
                         (q["id"], q["s"], " (reference %d itself)" % q["self"] if q["self"] else "", q["ans"], q["rans"], ev["rank"], q["nm"], q["ksize"], q["seen"],
                          " PANIC " + q["panmsg"] if q["pan"] else ""))
    return ("%s; references %s; %s" % (call, ev["refs"], " | ".join(parts)))[:2500]


def report(ctx, part, events, rejects):
    for r in rejects:
        ev = events[r["l"] - 1]
        why = r["why"]
        cls = "%s/%s" % (ev["origin"], ev["sc"])
        if why.startswith("harness_"):
            raise vlib.Inconclusive("the recording itself is wrong (%s) on event %d: %s" % (why, r["l"], str(ev)[:400]))
        what = ms_describe(ev) if part == "ms" else ks_describe(ev, why)
        if why.startswith("known+"):
            for d in why[6:].split("+"):
                ctx.violation("X04.known_departure", ("microsat/" if part == "ms" else "kmer/") + d,
                              "%s rejects (%s): %s" % ("MicrosatTrace" if part == "ms" else "KmerSimTrace", why, what), ev)
        elif why.startswith("bad:"):
            clause = why[4:].split("@")[0]
            ctx.violation("X04.%s.%s" % ("microsat" if part == "ms" else "kmer", clause), cls,
                          "%s rejects (%s): %s" % ("MicrosatTrace" if part == "ms" else "KmerSimTrace", why, what), ev)
        else:
            raise vlib.Inconclusive("unknown verdict %s" % why)


def validate(ctx, part, trace, timeout):
    module = "MicrosatTrace" if part == "ms" else "KmerSimTrace"
    events, rejects = ctx.trace_validate(module, module + ".cfg", trace, timeout=timeout, heap=HEAP)
    run = ctx.tlc_runs[-1]
    if run["distinct"] != 2 * len(events):
        raise vlib.Inconclusive("%s judged %d states for %d events" % (module, run["distinct"], len(events)))
    report(ctx, part, events, rejects)
    return events, rejects


def main(ctx):
    thorough = ctx.tier == "thorough"
    if ctx.replay:
        blob = json.load(open(ctx.replay))
        case = blob["case"]
        if "cls" in case:                       # a model case
            cases = ctx.path("cases.ndjson")
            vlib.write_ndjson(cases, [case])
            res = ctx.path("res.ndjson")
            ctx.harness(["replay", "X04", "--cases", cases, "--out", res])
            ctx.add_results(res)
            return ctx.finish()
        if case.get("kind") in ("ms", "ks") and "origin" in case:
            part = case["kind"]
            tr = ctx.path("trace.ndjson")
            if case["origin"] == "lib":         # the real code is observed again on the same input, then judged
                one = ctx.path("one.ndjson")
                vlib.write_ndjson(one, [case])
                ctx.harness(["record", "X04", "--out", tr, "--opt", "part=" + part, "--opt", "replay=" + one])
            else:                               # the real binary is run again on files rebuilt from the event
                bindir = ctx.build_cmds(["obimicrosat", "obikmersimcount", "obikmermatch"])
                evs = ms_rerun(ctx, bindir, case) if part == "ms" else ks_rerun(ctx, bindir, case)
                if not evs:
                    return ctx.finish()
                vlib.write_ndjson(tr, evs)
            validate(ctx, part, tr, 600)
            return ctx.finish()
        print("[check] this replay file describes a failed command (re-run the tier with VERIF_SEED=%s to run it again): %s" % (blob.get("seed"), str(case)[:600]))
        ctx.violation(blob["assert"], blob["class"], blob["detail"], case)
        return ctx.finish()

    tier = "thorough" if thorough else "quick"
    # M ---------------------------------------------------------------------------------------
    mcases = ctx.path("cases_ms.ndjson")
    r1 = ctx.tlc_model("MicrosatMC", "MicrosatMC_%s.cfg" % tier, env={"VERIF_CASES": mcases}, timeout=3000, heap=HEAP)
    kcases = ctx.path("cases_ks.ndjson")
    r2 = ctx.tlc_model("KmerSimMC", "KmerSimMC_%s.cfg" % tier, env={"VERIF_CASES": kcases}, timeout=3000, heap=HEAP)
    try:
        c1 = vlib.read_cases(mcases)
        c2 = vlib.read_cases(kcases)
    except ValueError as ex:
        raise vlib.Inconclusive("torn line in the cases exported by TLC: %s" % ex)
    if 2 * len(c1) != r1.distinct or 2 * len(c2) != r2.distinct:
        raise vlib.Inconclusive("exported %d+%d cases for %d+%d states" % (len(c1), len(c2), r1.distinct, r2.distinct))
    mcls = collections.Counter(re.sub(r"^[a-z]+/", "", c["cls"]) for c in c1)
    for need in ("none", "flank_too_short", "found/direct", "found/reverse", "found/either_orientation",
                 "found/direct/masked_by_short_repeat", "found/direct/masked_by_smaller_period"):
        ctx.expect_vacuity("model microsatellite cases of class " + need, mcls.get(need, 0))
    kdv = collections.Counter(v["dv"] for c in c2 for v in c["va"] + c["vd"])
    for need in ("spec", "+count_plus_one", "+max_kmers_boundary", "+self_counted_when_last"):
        ctx.expect_vacuity("model k-mer cases where the variant %s differs" % need, kdv.get(need, 0))
    ctx.extra["exported_microsat_cases"] = len(c1)
    ctx.extra["exported_kmer_cases"] = len(c2)
    ctx.extra["model_microsat_classes"] = dict(mcls)
    # R ---------------------------------------------------------------------------------------
    for path in (mcases, kcases):
        res = path + ".res"
        ctx.harness(["replay", "X04", "--cases", path, "--out", res], timeout=3000)
        summ = ctx.add_results(res)
        if summ.get("aborted_after_failures"):
            ctx.extra["replay_stopped_after_many_failures"] = True
    if not ctx.violations:
        for need in ("scan/none", "scan/found/direct", "scan/flank_too_short", "break/found/direct", "strand/found/reverse",
                     "strand/found/either_orientation", "wide/found/direct", "bits=64/asc", "bits=128/desc",
                     "pair/plain/nolimit/other/nohit", "pair/sparse/nolimit/other/nohit", "triple/plain/limit/self/nohit"):
            ctx.expect_vacuity("replayed class " + need, ctx.classes.get(need, 0))
        ctx.expect_vacuity("replayed k-mer cases with a hit", sum(v for k, v in ctx.classes.items() if k.endswith("/hit")))
    # T ---------------------------------------------------------------------------------------
    bindir = ctx.build_cmds(["obimicrosat", "obikmersimcount", "obikmermatch"])
    n_ms, n_ks, f_ms, per, f_ks, maxlen_ms, maxlen_ks = (8000, 1200, 60, 50, 300, 300, 160) if thorough else (288, 32, 8, 32, 16, 120, 90)
    mtrace = ctx.path("trace_ms.ndjson")
    ctx.harness(["record", "X04", "--out", mtrace, "--n", n_ms, "--opt", "part=ms", "--opt", "maxlen=%d" % maxlen_ms], timeout=900)
    with open(mtrace, "a") as f:
        for ev in ms_command_events(ctx, bindir, f_ms, per, maxlen_ms):
            f.write(json.dumps(ev, separators=(",", ":")) + "\n")
    ms_events, ms_rej = validate(ctx, "ms", mtrace, 3000)
    ktrace = ctx.path("trace_ks.ndjson")
    ctx.harness(["record", "X04", "--out", ktrace, "--n", n_ks, "--opt", "part=ks", "--opt", "maxlen=%d" % maxlen_ks], timeout=900)
    with open(ktrace, "a") as f:
        for ev in ks_command_events(ctx, bindir, f_ks, maxlen_ks):
            f.write(json.dumps(ev, separators=(",", ":")) + "\n")
    ks_events, ks_rej = validate(ctx, "ks", ktrace, 3000)
    # vacuity of the recorded runs (judged only when nothing was found: a defect can empty a class)
    if not ctx.violations:
        fam = collections.Counter("%s/%s/%s" % (e["origin"], e["sc"], "kept" if e["n"] else "dropped") for e in ms_events)
        for need in ("lib/planted/kept", "lib/none/dropped", "lib/selfrc/kept", "lib/two/kept", "lib/just_below/dropped", "lib/whole/kept",
                     "lib/interrupted/kept", "lib/big_unit/kept", "cmd/planted/kept", "cmd/none/dropped", "cmd/at_end/kept"):
            ctx.expect_vacuity("recorded microsatellite events " + need, fam.get(need, 0))
        ctx.expect_vacuity("recorded records that were re-oriented", sum(1 for e in ms_events if e["n"] and e["out"]["cmp"] == 1))
        ctx.expect_vacuity("recorded re-oriented records with quality scores", sum(1 for e in ms_events if e["n"] and e["out"]["cmp"] == 1 and e["q"]))
        ctx.expect_vacuity("recorded records kept with -n / reoriented=false and a reverse unit",
                           sum(1 for e in ms_events if e["n"] and e["re"] == 0 and e["out"]["orient"] == "reverse"))
        ctx.expect_vacuity("obimicrosat runs decoded from FASTQ", sum(1 for e in ms_events if e["origin"] == "cmd" and e["q"]))
        kfam = collections.Counter("%s/%s" % (e["origin"], e["sc"]) for e in ks_events)
        for need in ("lib/family", "lib/random", "lib/repeats", "lib/lowcomplexity", "lib/iupac", "lib/short", "count/family", "count/repeats", "match/family"):
            ctx.expect_vacuity("recorded k-mer events " + need, kfam.get(need, 0))
        qs = [(e, q) for e in ks_events for q in e["queries"]]
        ctx.expect_vacuity("library queries that are a reference object itself", sum(1 for e, q in qs if e["origin"] == "lib" and q["self"]))
        ctx.expect_vacuity("library queries with a count above 30", sum(1 for e, q in qs if e["origin"] == "lib" and q["ans"] and max(q["ans"]) > 30))
        ctx.expect_vacuity("library events with k > 32", sum(1 for e in ks_events if e["origin"] == "lib" and e["k"] > 32))
        ctx.expect_vacuity("library events with --max-kmers", sum(1 for e in ks_events if e["origin"] == "lib" and e["mo"] >= 0))
        ctx.expect_vacuity("library events on 4 workers or more", sum(1 for e in ks_events if e["origin"] == "lib" and e["w"] >= 4))
        ctx.expect_vacuity("obikmersimcount --self runs", sum(1 for e in ks_events if e["origin"] == "count" and e["selfmode"]))
        ctx.expect_vacuity("obikmersimcount queries with matches", sum(1 for e, q in qs if e["origin"] == "count" and q["nm"] > 0))
        ctx.expect_vacuity("obikmermatch records", sum(len(q["outs"]) for e, q in qs if e["origin"] == "match"))
        ctx.expect_vacuity("obikmermatch records on the reverse strand", sum(1 for e, q in qs if e["origin"] == "match" for o in q["outs"] if o["rev"]))
        ctx.expect_vacuity("obikmermatch exact records", sum(1 for e, q in qs if e["origin"] == "match" for o in q["outs"] if o["ident1"]))
        ctx.expect_vacuity("obikmermatch exact records whose overlap is shorter than the consensus",
                           sum(1 for e, q in qs if e["origin"] == "match" for o in q["outs"] if o["ident1"] and 0 < o["alen"] < len(o["seq"])))
        ctx.expect_vacuity("obikmermatch runs with a threshold of 8 shared k-mers or more", sum(1 for e in ks_events if e["origin"] == "match" and e["minc"] >= 8))
    ctx.extra["recorded_microsat_events"] = dict(collections.Counter(e["origin"] for e in ms_events))
    ctx.extra["recorded_kmer_events"] = dict(collections.Counter(e["origin"] for e in ks_events))
    ctx.extra["recorded_kmer_queries"] = sum(len(e["queries"]) for e in ks_events)
    ctx.extra["trace_max_sequence_length"] = max(len(e["s"]) for e in ms_events)
    ctx.extra["trace_max_k"] = max(e["k"] for e in ks_events)
    for evs in (ms_events, ks_events):
        for origin in ("lib", "cmd", "count", "match"):
            e = next((x for x in evs if x["origin"] == origin and (x.get("n") or x.get("queries"))), None)
            if e:
                ctx.samples.insert(0, {"trace_event": (ms_describe(e) if e["kind"] == "ms" else ks_describe(e, ""))[:400]})
    ctx.assumptions += [
        "obimicrosat: options with 1 <= min-unit-length <= max-unit-length and min-unit-count >= 2 (a count of 1 makes the unit of the code's second "
        "search meaningless; 0 is refused by the regular expression compiler); sequences are lower-case IUPAC symbols, only a c g t can belong to a repeat",
        "obimicrosat: when the class of the unit is its own reverse complement (at, cg, acgt, tcga ...) either orientation is accepted",
        "k-mer counts: references and queries are lower-case IUPAC symbols; k even in plain mode and odd in sparse mode after NewKmerMap's adjustment; "
        "2k <= 128 bits on the commands; the order of the addresses of the reference objects is observed (library) or both extremes are accepted (binaries)",
        "obikmermatch: only the selection (match count, identifiers, strand) and the exact-overlap clause are specified; scores and the consensus of an "
        "inexact overlap are not; the clause is stated for a c g t sequences, overlap longer than k, a single exact occurrence, without --max-kmers",
    ]
    ctx.extra["exhaustive"] = False
    return ctx.finish(rule="M/R: every (sequence, option set) of the configured alphabets/lengths for obimicrosat, every (references, query, k, "
                           "--max-kmers, self) for the counts x 2 word sizes x 2 address layouts x 5 thresholds (replayed_model_cases counts the "
                           "comparisons made); T: one event = one record (obimicrosat) or one reference set with its queries (k-mer counts), "
                           "observed on the library or decoded from the output of the real binaries")

"""C20 - fixed-precision 64/128/256-bit unsigned integers of pkg/obifp agree with exact arithmetic.

M: (1) BitVecLaws.tla: the bit-level definitions of BitVec.tla against TLC's native integers for
       every operand pair of a small width, and the limb-shaped LimbModel.tla against BitVec for
       several (limb size, limb count) shapes, all shift amounts;
   (2) ObiFpCases.tla: limb-pattern operands x all shift amounts x 3 widths, laws between the
       expectations, one exported case per (group, operands, n) with every required result.
R: every exported case is run on the real Uint64/Uint128/Uint256 (operands built with the verif
   limb constructors, panics recovered, hung divisions timed out) and compared field by field.
T: seeded random operands (dense, sparse, all sizes, products around the overflow boundary);
   ObiFpTrace.tla re-evaluates the specification on every logged event.
"""
import json
import os
import re
import vlib


HEAP = "4g"   # the models are small; a bounded heap keeps several concurrent checks out of the OOM killer


def load_own_findings(ctx):
    """findings_C20.json (owned by this check) lists the genuine defects; entries of kind "known"
    are still in the tree and must be reported as KNOWN-FINDING, not as new violations."""
    p = os.path.join(vlib.VERIF, "findings_C20.json")
    if not os.path.exists(p):
        return
    have = {e.get("id") for e in ctx.findings.entries}
    for e in json.load(open(p)):
        if e.get("property") == "C20" and e.get("id") not in have:
            ctx.findings.entries.append(e)


def width_of(ev):
    return 8 * len(ev["a"])


def main(ctx):
    thorough = ctx.tier == "thorough"
    load_own_findings(ctx)
    if ctx.replay:
        blob = json.load(open(ctx.replay))
        case = blob["case"]
        if "o" in case and "x" not in case:
            # a rejected trace event: validate it again with the trace specification
            trace = ctx.path("trace.ndjson")
            ev = dict(case)
            # run the real code again on the same operands
            vlib.write_ndjson(ctx.path("one.ndjson"), [{k: ev[k] for k in ("g", "a", "b", "n")}])
            ctx.harness(["record", "C20", "--out", trace, "--opt", "events=" + ctx.path("one.ndjson")])
            validate(ctx, trace)
        else:
            cases = ctx.path("cases.ndjson")
            vlib.write_ndjson(cases, [case])
            res = ctx.path("res.ndjson")
            ctx.harness(["replay", "C20", "--cases", cases, "--out", res])
            ctx.add_results(res)
        return ctx.finish()

    # M ---------------------------------------------------------------------------------------
    tier = "thorough" if thorough else "quick"
    laws = ctx.tlc_model("BitVecLaws", "BitVecLaws_%s.cfg" % tier, timeout=1500, heap=HEAP)
    ctx.expect_vacuity("BitVecLaws states", laws.distinct)
    ctx.extra["laws_states"] = laws.distinct
    cases = ctx.path("cases.ndjson")
    gen = ctx.tlc_model("ObiFpCases", "ObiFpCases_%s.cfg" % tier, env={"VERIF_CASES": cases}, timeout=1500, heap=HEAP)
    allcases = vlib.read_cases(cases)
    ctx.expect_vacuity("exported obifp cases", len(allcases))
    if 2 * len(allcases) != gen.distinct:
        raise vlib.Inconclusive("exported %d cases but TLC reports %d states (torn export?)"
                                % (len(allcases), gen.distinct))
    ctx.extra["exported_cases"] = len(allcases)
    # R ---------------------------------------------------------------------------------------
    res = ctx.path("res.ndjson")
    ctx.harness(["replay", "C20", "--cases", cases, "--out", res], timeout=1500)
    summ = ctx.add_results(res)
    if summ["checked"] != len(allcases):
        raise vlib.Inconclusive("replayed %d of %d cases" % (summ["checked"], len(allcases)))
    notrun = any(k.endswith("/not-run") for k in ctx.classes)
    for need in ("u64/sh/0<n<64", "u64/sh/n=64", "u64/sh/n>=W", "u128/sh/n=64", "u128/sh/64<n<128",
                 "u128/sh/n>=W", "u256/sh/n=64", "u256/sh/64<n<128", "u256/sh/128<=n<W", "u256/sh/n>=W",
                 "u64/bin/addovf-subfit", "u128/bin/addovf-subfit", "u256/bin/addovf-subfit",
                 "u256/bin/addfit-subund", "u64/mul/fit", "u64/mul/ovf", "u128/mul/fit/lh",
                 "u128/mul/ovf/lh", "u128/mul/ovf/hh", "u256/mul/fit", "u256/mul/ovf",
                 "u128/div/bwide", "u128/div/b64", "u256/div/bwide", "u64/u64x/0<n<64", "u64/u64x/n=64",
                 "u64/un/fits64", "u128/un/wide", "u256/un/wide"):
        if notrun and "/div/" in need:
            continue  # divisions hung (reported as violations) and the rest of the group was not run
        ctx.expect_vacuity("replay class " + need, ctx.classes.get(need, 0))
    # T ---------------------------------------------------------------------------------------
    trace = ctx.path("trace.ndjson")
    n = 60000 if thorough else 4000
    ctx.harness(["record", "C20", "--out", trace, "--n", n,
                 "--opt", "mul=%d" % (n // 8), "--opt", "div=%d" % (n // 8)], timeout=900)
    events = validate(ctx, trace)
    seen = {}
    for ev in events:
        seen[ev["cls"]] = seen.get(ev["cls"], 0) + 1
    for need in ("u256/sh/128<=n<W", "u256/sh/64<n<128", "u128/sh/64<n<128", "u256/mul/fit", "u256/mul/ovf",
                 "u128/mul/fit/lh", "u64/mul/fit", "u128/div/bwide", "u256/div/bwide", "u256/div/bwide/atop"):
        if not ctx.violations:  # classes are named after the OBSERVED overflow flag: meaningful on conforming code
            ctx.expect_vacuity("trace class " + need, seen.get(need, 0))
    ctx.extra["trace_classes"] = seen
    ctx.samples.append({"trace_event": {k: events[0][k] for k in ("g", "a", "b", "n", "o")}})
    ctx.assumptions += [
        "exactness is relative to the bit-level definitions of BitVec.tla, validated against TLC's native "
        "integers exhaustively at 6 bits (quick) / 8 bits (thorough) only",
        "64/128/256-bit expectations are computed with the 8-bit-limb operators of LimbModel.tla, checked equal "
        "to BitVec for small limb shapes (all pairs up to 8 bits, all values x all shifts at 16 bits in thorough)",
        "division by zero and narrowing casts of values that do not fit are outside the property and not asserted",
        "a method call that does not return within 3 s is reported as non-terminating",
    ]
    return ctx.finish(rule="one case per (method group, limb-pattern operands, shift amount) exported by TLC; "
                           "one trace event per method group on random operands")


def validate(ctx, trace):
    jtmp = ctx.path("trace-jtmp")
    os.makedirs(jtmp, exist_ok=True)
    events, rejects = ctx.trace_validate(
        "ObiFpTrace", "ObiFpTrace.cfg", trace, timeout=1500,
        env={"JAVA_TOOL_OPTIONS": "-Xss512m -Xmx%s -Djava.io.tmpdir=%s" % (HEAP, jtmp)})
    for r in rejects:
        ev = events[r["l"] - 1]
        why = list(r["why"])
        flags = {f[:-1] for f in why if f.endswith("p")}
        for f in why:
            if f in flags:
                continue  # the value differs because the overflow signal differs: one report
            ctx.violation("C20.u%d.%s" % (width_of(ev), f), ev.get("cls", ""),
                          "trace event rejected by ObiFpTrace: group %s a=%s b=%s n=%d: field %s observed %s" %
                          (ev["g"], hexs(ev["a"]), hexs(ev["b"]), ev["n"], f, ev["o"].get(f)),
                          {k: ev[k] for k in ("g", "a", "b", "n", "o", "cls") if k in ev})
    return events


def hexs(bs):
    if not bs:
        return "-"
    return "0x" + "".join("%02x" % b for b in reversed(bs))

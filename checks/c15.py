"""C15 - assignment search is lossless: k-mer prefilters never change the answer.

M: TLC on spec/L3_command/TagModel.tla (reference definitions and implementation-shaped scans of Tag.tla, on
   top of LCS.tla, D1.tla, Tax.tla): on every (query, reference set) of the configured suites - single and
   double edits, duplicates, extensions, unrelated references, small taxonomy - the 4-mer lemma holds, the
   FindClosests-shaped scan with the pruning threshold taken from the query length answers Closest for every
   order of tied candidates, the IndexSequence-shaped scan builds RefIndex, the assigned taxon covers every
   best reference.  The same scans with the thresholds as the code was written lose references: those cases
   are exported with cls = scanloss / idxloss (thorough also runs the two as-written configurations and
   expects TLC's counter-example).  One case per reference set is exported with every expected value.
R: every exported case through the real obikmer.Common4Mer, obitag.FindClosests, obitag2.FindClosests,
   obirefidx.IndexSequence and obitag.Identify, references in the exported and in the reverse order; answers
   compared as sets / through the two clauses asked of an index.
T: seeded random databases (clusters of near-duplicates, ties, unequal lengths, random taxonomies) and
   queries, with the model's counter-example families planted on long sequences; TagTrace.tla re-evaluates
   the reference definitions on every logged call (one state per reference of a search).
"""
import collections
import json
import os

import vlib


def load_own_findings(ctx):
    """known entries of findings_C15.json are honoured even before the maintainer merges them."""
    p = os.path.join(vlib.VERIF, "findings_C15.json")
    if os.path.exists(p):
        have = {e.get("id") for e in ctx.findings.entries}
        for e in json.load(open(p)):
            if e.get("property") == "C15" and e.get("id") not in have:
                ctx.findings.entries.append(e)


def nstates(ev):
    return len(ev["refs"]) if ev["k"] == "closest" else 1


def inputs_of(ev):
    """what is needed to run the call again"""
    keep = ("k", "sc", "fn", "alpha", "q", "refs", "taxa", "parent", "kk")
    return {k: ev[k] for k in keep}


def describe(ev, why, refs_rejected):
    s = lambda x: "".join(x)
    if ev["k"] == "closest":
        ret = [j + 1 for j, b in enumerate(ev["inb"]) if b]
        txt = "%s.FindClosests(query %s, %d references) returned references %s at distance %d" % (
            ev["fn"], s(ev["q"]), len(ev["refs"]), ret, ev["maxe"])
        if why == "closest.best_set":
            txt += "; TagTrace: " + ", ".join("reference %d (%s)" % (j, s(ev["refs"][j - 1])) for j in refs_rejected[:4]) + \
                   " is at that distance too and was not returned"
        elif why == "closest.distance":
            txt += "; TagTrace: the distance of reference(s) %s (%s) contradicts that answer (a returned one is not at %d, or one " \
                   "left out is closer)" % (refs_rejected[:4], s(ev["refs"][refs_rejected[0] - 1]), ev["maxe"])
        else:
            txt += "; TagTrace rejects it (%s) at reference(s) %s" % (why, refs_rejected[:4])
        if ev["err"]:
            txt += " [%s]" % ev["err"][:200]
        return txt
    if ev["k"] == "index":
        return "IndexSequence(reference %d = %s of %d references, %d taxa) = %s: TagTrace rejects it (%s)%s" % (
            ev["kk"], s(ev["refs"][ev["kk"] - 1]), len(ev["refs"]), len(ev["parent"]), ev["idx"], why,
            {"index.entry": ": a recorded distance does not map to the LCA of the taxa of all references within it",
             "index.lookup": ": read as Identify reads it, it does not give the LCA of the taxa within some distance below "
                             "the length of the reference (a change point is missing)"}.get(why, " " + ev["err"][:200]))
    if ev["k"] == "assign":
        return "Identify(query %s, %d references, %d taxa) assigned taxon %d: TagTrace rejects it (%s)%s" % (
            s(ev["q"]), len(ev["refs"]), len(ev["parent"]), ev["taxid"], why,
            {"assign.ancestor": ": not an ancestor-or-self of the taxon of every best reference",
             "assign.taxon": ": not the LCA of the index entries of the best references"}.get(why, " " + ev["err"][:200]))
    return "Common4Mer(%s, %s) = %d: TagTrace rejects it (%s) %s" % (s(ev["q"]), s(ev["refs"][0]), ev["common"], why, ev["err"][:200])


def validate_trace(ctx, trace, timeout, heap=None):
    events, rejects = ctx.trace_validate("TagTrace", "TagTrace.cfg", trace, timeout=timeout, heap=heap)
    run = ctx.tlc_runs[-1]
    want = 2 * sum(nstates(e) for e in events)
    if run["distinct"] != want:
        raise vlib.Inconclusive("TagTrace judged %d states, %d expected" % (run["distinct"], want))
    by = collections.OrderedDict()
    for r in sorted(rejects, key=lambda r: (r["l"], r["i"])):
        by.setdefault((r["l"], r["why"]), []).append(r["i"])
    for (l, why), refs in by.items():
        ev = events[l - 1]
        if why == "unknown-event-kind":
            raise vlib.Inconclusive("malformed trace event %d" % l)
        ctx.violation("C15." + why, "trace/%s/%s%s" % (ev["k"], ev["sc"], "/" + ev["fn"] if ev["fn"] else ""),
                      describe(ev, why, refs), {"kind": "trace", "event": inputs_of(ev)})
    return events, rejects


def main(ctx):
    thorough = ctx.tier == "thorough"
    load_own_findings(ctx)
    guards = []          # vacuity guards are judged at the end: a defect of the real code can empty a class

    def guard(name, n):
        guards.append((name, n))

    if ctx.replay:
        blob = json.load(open(ctx.replay))
        case = blob["case"]
        if case.get("kind") == "trace":
            script = ctx.path("script.json")
            json.dump([case["event"]], open(script, "w"))
            trace = ctx.path("trace.ndjson")
            ctx.harness(["record", "C15", "--out", trace, "--opt", "script=" + script])
            validate_trace(ctx, trace, 1200)
        else:
            cases = ctx.path("cases.ndjson")
            vlib.write_ndjson(cases, [case])
            res = ctx.path("res.ndjson")
            ctx.harness(["replay", "C15", "--cases", cases, "--out", res])
            ctx.add_results(res)
        return ctx.finish()

    # M ---------------------------------------------------------------------------------------
    tier = "thorough" if thorough else "quick"
    cases = ctx.path("cases.ndjson")
    m = ctx.tlc_model("TagModel", "TagModel_%s.cfg" % tier, env={"VERIF_CASES": cases}, timeout=3000, heap="6g")
    try:
        allcases = vlib.read_cases(cases)
    except ValueError as ex:
        raise vlib.Inconclusive("torn line in the exported cases: %s" % ex)
    # states: one per (suite, query), then a 'picked' and a 'done' state per reference set x taxa pattern
    ninit = len({(c["suite"], "".join(c["q"])) for c in allcases})
    if m.distinct != ninit + 2 * len(allcases):
        raise vlib.Inconclusive("exported %d cases for %d states" % (len(allcases), m.distinct))
    ctx.expect_vacuity("exported cases", len(allcases))
    by_cls = collections.Counter(c["cls"].split("/")[0] for c in allcases) + collections.Counter(c["cls"].split("/")[1] for c in allcases)
    ctx.extra["exported_cases"] = len(allcases)
    ctx.extra["model_cases_where_the_as_written_search_loses_a_tied_reference"] = by_cls.get("scanloss", 0)
    ctx.extra["model_cases_where_the_as_written_index_scan_loses_a_reference"] = by_cls.get("idxloss", 0)
    ctx.extra["model_cases_with_ties"] = sum(1 for c in allcases if len(c["best"]) > 1)
    # the counter-example classes of the property's rationale must be part of what is replayed
    ctx.expect_vacuity("model cases on which the search as written loses a tied reference", by_cls.get("scanloss", 0))
    ctx.expect_vacuity("model cases on which the index scan as written loses a reference", by_cls.get("idxloss", 0))
    ctx.expect_vacuity("model cases with several best references", ctx.extra["model_cases_with_ties"])
    ctx.expect_vacuity("model cases with an index of several entries", sum(1 for c in allcases if any(len(ix) > 1 for ix in c["idx"])))
    if thorough:
        for cfg, inv in (("TagModel_aswritten_scan.cfg", "ScanLossless"), ("TagModel_aswritten_index.cfg", "IndexLossless")):
            neg = ctx.tlc("TagModel", cfg, timeout=900, count=False)
            if inv not in neg.invariant_violated:
                raise vlib.Inconclusive("negative test: the scan as written must violate %s in the model (%s)" % (inv, cfg))
            ctx.extra["model_counterexample_" + inv] = "found by TLC (%s violates %s)" % (cfg, inv)

    # R ---------------------------------------------------------------------------------------
    res = ctx.path("res.ndjson")
    bindir = ctx.build_cmds(["obirefidx"])
    ctx.harness(["replay", "C15", "--cases", cases, "--out", res, "--opt", "bindir=" + bindir,
                 "--opt", "cmdevery=%d" % (400 if thorough else 40)], timeout=1500)
    summ = ctx.add_results(res)
    for need in ("kmer.common4", "closest.obitag.asgiven", "closest.obitag.reversed", "closest.obitag2.asgiven",
                 "closest.obitag2.reversed", "closest.cls.scanloss/idxok/tie", "index.asgiven", "index.reversed",
                 "index.several_entries", "assign.asgiven", "assign.reversed", "assign.below_root", "case.near", "case.idx"):
        guard("class " + need, ctx.classes.get(need, 0))
    guard("replayed index cases of the class the as-written scan loses",
                       sum(v for k, v in ctx.classes.items() if k.startswith("index.cls.") and "idxloss" in k))
    if not summ.get("aborted_after_failures") and ctx.classes.get("cases.replayed", 0) != len(allcases):
        raise vlib.Inconclusive("replayed %d of %d cases" % (ctx.classes.get("cases.replayed", 0), len(allcases)))

    # T ---------------------------------------------------------------------------------------
    trace = ctx.path("trace.ndjson")
    if thorough:
        opts = dict(closest=200, index=90, assign=60, kmer=600, maxrefs=500, idxrefs=80, idxmaxlen=90)
    else:
        opts = dict(closest=12, index=8, assign=6, kmer=60, maxrefs=300, idxrefs=36, idxmaxlen=50)
    args = ["record", "C15", "--out", trace]
    for k, v in opts.items():
        args += ["--opt", "%s=%d" % (k, v)]
    ctx.harness(args, timeout=900)
    events, rejects = validate_trace(ctx, trace, 3000, heap="6g")
    fam = collections.Counter("%s/%s" % (e["k"], e["sc"]) for e in events)
    for need in ("closest/family", "closest/family2", "closest/near", "closest/self", "closest/iupac", "closest/unrelated", "closest/one-apart",
                 "index/random", "index/idxfamily", "index/idxfamily2", "assign/near", "assign/tie", "assign/self", "assign/far",
                 "kmer/related", "kmer/unrelated", "kmer/repeats", "kmer/iupac"):
        guard("trace family " + need, fam.get(need, 0))
    closest = [e for e in events if e["k"] == "closest"]
    guard("searches of obitag2", sum(1 for e in closest if e["fn"] == "obitag2"))
    guard("searches answering several tied references", sum(1 for e in closest if sum(e["inb"]) > 1))
    guard("searches answering a distance of 2 or more", sum(1 for e in closest if e["maxe"] >= 2))
    guard("searches over at least 150 references", sum(1 for e in closest if len(e["refs"]) >= 150))
    guard("indexes with at least three entries", sum(1 for e in events if e["k"] == "index" and len(e["idx"]) >= 3))
    guard("assignments below the root", sum(1 for e in events if e["k"] == "assign" and e["taxid"] > 1))
    ctx.extra["trace_families"] = dict(fam)
    ctx.extra["trace_states_judged"] = sum(nstates(e) for e in events)
    ctx.extra["trace_max_references"] = max(len(e["refs"]) for e in events)
    ctx.extra["trace_max_length"] = max(max(len(r) for r in e["refs"]) for e in events)
    ctx.extra["trace_max_taxa"] = max(len(e["parent"]) for e in events)
    ev = closest[0]
    ctx.samples.insert(0, {"trace_event": {"k": ev["k"], "fn": ev["fn"], "q": "".join(ev["q"]), "references": len(ev["refs"]),
                                           "returned": [j + 1 for j, b in enumerate(ev["inb"]) if b], "maxe": ev["maxe"]}})
    ctx.assumptions += [
        "queries and references are lower-case sequences over {a,c,g,t} of at least one symbol (the 4-mer lemma is stated on "
        "that alphabet); for queries with ambiguity codes only the soundness of the returned distance is asserted",
        "LCS distance = columns of the shortest alignment realising the LCS minus its length (LCS.tla, property C09)",
        "an index is judged by two clauses: every recorded distance maps to the LCA of the taxa of all references within it, and "
        "read as Identify reads it (entry of the largest recorded distance not above d) it gives that LCA for every d below the "
        "length of the reference; the text after the taxid in an index value is not judged",
        "taxonomies have taxids 1..n with root 1 (Identify falls back on taxid 1); identity threshold 0.5 as in Identify",
        "obitag2.FindClosests is driven below its cap of 1001 examined candidates",
    ]
    ctx.extra["exhaustive"] = False
    if not ctx.violations:
        for name, n in guards:
            ctx.expect_vacuity(name, n)
    return ctx.finish(rule="M/R: one case per (query, reference set, taxa pattern) of the configured suites, replayed with the "
                           "references in both orders through 2 searches, every index and the assignment (replayed_model_cases "
                           "counts comparisons made); T: one event = one call of the real code on a seeded random scenario, a "
                           "search being judged reference by reference")
